#!/bin/bash
# usage: bin/confirm_seed.sh <Cxx> <mN>   confirm a sub-agent's change in its scratch worktree and file it under seeded/
pid=$1; m=$2; wt=/tmp/wt/$pid; out=/tmp/wt/${pid}_out
[ -d "$wt" ] || git -C /repo worktree add -q --detach "$wt" HEAD
cd "$wt" && git checkout -q -- . && git clean -fdq
export PYTHONPATH=$wt/src
base_demo=$(/venv/bin/python $out/${m}_demo.py >/dev/null 2>&1; echo $?)
git apply "$out/$m.diff" || { echo "APPLY FAILED"; exit 1; }
suite=$(/venv/bin/python -m pytest -q -p no:cacheprovider --continue-on-collection-errors 2>&1 | tail -1)
mut_demo=$(/venv/bin/python $out/${m}_demo.py >/dev/null 2>&1; echo $?)
git checkout -q -- . ; git clean -fdq
echo "$pid $m: demo on clean rc=$base_demo; suite with change: $suite; demo with change rc=$mut_demo"
if [ "$base_demo" = 0 ] && [ "$mut_demo" != 0 ] && echo "$suite" | grep -q "566 passed, 46 errors"; then
  d=/verif/seeded/$pid-$m; mkdir -p $d
  cp $out/$m.diff $d/patch.diff; cp $out/${m}_demo.py $d/demo.py
  python3 - "$pid" "$m" "$d" "$out/$m.txt" "$suite" <<'PY'
import json,sys
pid,m,d,txt,suite=sys.argv[1:]
json.dump({"property":pid,"id":pid+"-"+m,"needs_to_manifest":open(txt).read().strip(),
 "confirmed":{"suite_with_change":suite,"demo_clean_rc":0,"demo_with_change_rc":"nonzero",
 "how":"bin/confirm_seed.sh: scratch worktree, git apply, baseline pytest command, demo before/after"},
 "detected_by":None}, open(d+"/meta.json","w"), indent=1)
PY
  echo "kept -> $d"
else echo "NOT KEPT"; fi
