#!/bin/bash
# usage: bin/eval_seed.sh <Cxx> <mN> [extra args]  -- run the quick check against a scratch worktree of /repo with the seeded
# change applied (VERIF_REPO), stopping at the first reproduced violation; /repo itself is not touched.
pid=$1; m=$2; shift 2
wt=/tmp/wt/$pid; mkdir -p /tmp/wt/eval
[ -d "$wt" ] || git -C /repo worktree add -q --detach "$wt" HEAD
cd "$wt" && git checkout -q -- . && git clean -fdq && git apply /verif/seeded/$pid-$m/patch.diff || { echo "$pid-$m APPLY FAILED"; exit 9; }
cd /verif
VERIF_REPO=$wt bin/check $pid --fail-fast --no-evidence "$@" > /tmp/wt/eval/$pid-$m.log 2>&1
rc=$?
cd "$wt" && git checkout -q -- . && git clean -fdq
echo "$pid-$m rc=$rc $(grep -E 'fail-fast: stopped|tier=quick obl' /tmp/wt/eval/$pid-$m.log | tail -1)"
