#!/bin/bash
# usage: bin/try_seed.sh <Cxx> <patch.diff> [extra args to bin/check]  -- apply, run quick check, undo
pid=$1; patch=$(realpath "$2"); shift 2
cd /verif
git -C /repo apply "$patch" || { echo "patch does not apply"; exit 9; }
bin/check "$pid" --no-evidence "$@" 2>&1 | grep -E "VIOLATION|counterexample|tier=|HARNESS-ERROR|INCONCLUSIVE" | cut -c1-400
rc=${PIPESTATUS[0]}
git -C /repo checkout -- .
echo "rc=$rc"
