#!/bin/bash
# Builds /verif/.venv: a venv of /venv/bin/python that sees /venv's site-packages and
# /repo/src, with crosshair-tool, z3-solver and cvc5 installed from the offline wheelhouse.
# Idempotent; every check re-invokes it when .venv is missing.
set -e
HERE="$(cd "$(dirname "$0")/.." && pwd)"
VENV="$HERE/.venv"
export PIP_NO_INDEX=1
if [ ! -x "$VENV/bin/crosshair" ] || ! "$VENV/bin/python" -c "import crosshair, z3, cvc5, jsonschema" 2>/dev/null; then
  rm -rf "$VENV"
  /venv/bin/python -m venv "$VENV"
  SP="$("$VENV/bin/python" -c 'import sysconfig; print(sysconfig.get_paths()["purelib"])')"
  printf '%s\n' "import site; site.addsitedir('/venv/lib/python3.12/site-packages')" > "$SP/zz_verif_overlay.pth"
  "$VENV/bin/pip" install -q --no-index --find-links /opt/veriftools/wheels crosshair-tool z3-solver cvc5 jsonschema >/dev/null
fi
"$VENV/bin/python" -c "import crosshair, z3, cvc5, lxml, pptx; print('setup ok', pptx.__file__)"
