#!/usr/bin/env python3
"""Regenerates MANIFEST.json from the table below + the harness files present."""
import json, os, sys
HERE = os.path.dirname(os.path.dirname(os.path.abspath(__file__)))
BASELINE = "cd /repo && /venv/bin/python -m pytest -ra -q -p no:cacheprovider --timeout=900 --continue-on-collection-errors"
LEVEL_TEXT = ("bounded symbolic verification of the real functions: CrossHair executes the python-pptx code on symbolic "
              "inputs and z3 decides every path within the stated bound (or a direct SMT refutation query is generated "
              "from the live declarations); counterexamples are replayed on the unpatched library with real lxml before "
              "being reported; nothing is claimed outside the bound")
# pid -> (technique, design_ref, level_note)
CLAIMS = json.load(open(os.path.join(HERE, "bin", "claims.json")))
NA_DEFAULT = "harness not built yet in this session; see DESIGN.md for the planned encoding"
props = [json.loads(l)["id"] for l in open(os.path.join(HERE, "properties.jsonl"))]
checks, na = [], []
for pid in props:
    c = CLAIMS.get(pid)
    if c and c.get("claimed"):
        checks.append({
            "property_id": pid,
            "quick_cmd": "bin/check %s --tier quick" % pid,
            "thorough_cmd": "bin/check %s --tier thorough" % pid,
            "evidence_file": "/verif/evidence/%s.json" % pid,
            "replay_cmd_template": "/verif/.venv/bin/python {path}",
            "engine": "xsmt",
            "level_claimed": {"category": "other", "text": LEVEL_TEXT, "design_ref": c.get("design_ref", "DESIGN.md section 6 " + pid)},
            "level_note": c["level_note"],
            "technique": c["technique"],
        })
    else:
        na.append({"property_id": pid, "reason": (c or {}).get("reason", NA_DEFAULT)})
m = {
    "version": 1,
    "setup_cmd": "bin/setup.sh",
    "hooks": {"guard": "PYTHON_PPTX_VERIF", "enable": "no hooks: checks import /repo/src as it is (PYTHONPATH), nothing to build",
              "baseline_off_cmd": BASELINE, "source_commits": [], "add_only": True},
    "engines": [{"name": "xsmt", "path": "kit/runner.py", "serves_properties": [c["property_id"] for c in checks],
                 "kind_free_text": "CrossHair 0.0.110 symbolic execution of the real python-pptx functions on a pure-Python lxml stand-in, z3 deciding each path; plus direct z3/cvc5 queries generated from live declarations and the XSD files"}],
    "checks": checks,
    "notes": "exit codes: 0 held within bounds, 1 reproduced violation, 3 inconclusive or harness error (never reported as success). Known findings: /verif/known_findings.json.",
    "not_applicable": na,
}
json.dump(m, open(os.path.join(HERE, "MANIFEST.json"), "w"), indent=1)
print("claimed:", [c["property_id"] for c in checks], "n/a:", len(na))
