#!/bin/bash
# runs every thorough command once, sequentially; logs under /tmp/thorough (scratch, not needed by any registered command)
mkdir -p /tmp/thorough
cd /verif
for p in "$@"; do
  start=$(date +%s)
  timeout 5400 bin/check $p --tier thorough > /tmp/thorough/$p.log 2>&1
  rc=$?
  echo "$p rc=$rc wall=$(( $(date +%s) - start ))s $(grep 'tier=thorough' /tmp/thorough/$p.log | tail -1)" >> /tmp/thorough/SUMMARY
done
