"""Parallel driver: runs every condition of a property's harness module, maps outcomes,
replays counterexamples on the unpatched library with real lxml, writes evidence.

exit 0  every 'confirm' condition confirmed over all paths / every S obligation unsat, every
        reachability twin refuted, (listed known findings still reproduce -> KNOWN-FINDING lines)
exit 1  a counterexample reproduced on the real code: VIOLATION property=<id> replay=<path>
exit 3  inconclusive (time-out, unknown, precondition unmet, twin not refuted) or harness error
"""
from __future__ import annotations

import argparse
import concurrent.futures as cf
import hashlib
import importlib
import inspect
import json
import os
import subprocess
import sys
import time

KIT = os.path.dirname(os.path.abspath(__file__))
VERIF = os.path.dirname(KIT)
PY = os.path.join(VERIF, ".venv", "bin", "python")
REPO = os.environ.get("VERIF_REPO", "/repo")


def _env(tier, real=False, seed=0):
    e = dict(os.environ)
    e["PYTHONPATH"] = VERIF + os.pathsep + os.path.join(REPO, "src")
    e["VERIF_TIER"] = tier
    e["PYTHONHASHSEED"] = "0"
    e["VERIF_SEED"] = str(seed)
    if real:
        e["VERIF_REAL"] = "1"
    else:
        e.pop("VERIF_REAL", None)
    return e


_PROCS = set()
_STOP = False


def _worker(modname, tier, seed, name, timeout):
    t0 = time.time()
    wall_cap = timeout * 2.5 + 90
    if _STOP:
        return dict(name=name, status="skipped", message="fail-fast: stopped after the first reproduced violation")
    try:
        p = subprocess.Popen([PY, "-m", "kit.xworker", modname, name, str(timeout)], cwd=VERIF, env=_env(tier, seed=seed),
                             stdout=subprocess.PIPE, stderr=subprocess.PIPE, text=True)
        _PROCS.add(p)
        try:
            out, err = p.communicate(timeout=wall_cap)
        except subprocess.TimeoutExpired:
            p.kill()
            p.communicate()
            raise
        finally:
            _PROCS.discard(p)
        if _STOP:
            return dict(name=name, status="skipped", message="fail-fast: stopped after the first reproduced violation")
        line = [l for l in out.splitlines() if l.startswith("XRESULT ")]
        if not line:
            return dict(name=name, status="error", message="worker produced no result (rc=%s)" % p.returncode,
                        traceback=(err or "")[-3000:], wall_s=round(time.time() - t0, 2))
        res = json.loads(line[-1][8:])
        res.setdefault("wall_s", round(time.time() - t0, 2))
        return res
    except subprocess.TimeoutExpired:
        return dict(name=name, status="unknown", message="wall-clock cap %.0fs exceeded" % wall_cap,
                    wall_s=round(time.time() - t0, 2))


def list_conditions(modname, tier):
    p = subprocess.run([PY, "-m", "kit.xworker", "--list", modname], cwd=VERIF, env=_env(tier),
                       capture_output=True, text=True, timeout=600)
    line = [l for l in p.stdout.splitlines() if l.startswith("XRESULT ")]
    if not line:
        raise RuntimeError("cannot list conditions of %s:\n%s\n%s" % (modname, p.stdout[-2000:], p.stderr[-4000:]))
    return json.loads(line[-1][8:])


REPLAY_TMPL = '''#!/verif/.venv/bin/python
"""Replay of a counterexample for property {pid}, condition {cond}.
Runs the harness body on the UNPATCHED library with real lxml (VERIF_REAL=1).
exit 1 = the violation reproduces; exit 0 = it does not.
"""
import os, sys
os.environ["VERIF_REAL"] = "1"
os.environ.setdefault("VERIF_TIER", {tier!r})
sys.path[:0] = [{verif!r}, os.path.join(os.environ.get("VERIF_REPO", "/repo"), "src")]
from kit.replay import replay
sys.exit(replay({mod!r}, {cond!r}, {args!r}))
'''


def write_replay(pid, modname, cond, args, tier):
    d = os.path.join(VERIF, "evidence", "replays", pid)
    os.makedirs(d, exist_ok=True)
    h = hashlib.sha1(json.dumps(args, sort_keys=True).encode()).hexdigest()[:8]
    path = os.path.join(d, "%s_%s.py" % (cond, h))
    with open(path, "w") as f:
        f.write(REPLAY_TMPL.format(pid=pid, cond=cond, tier=tier, verif=VERIF, mod=modname, args=args))
    os.chmod(path, 0o755)
    return path


def run_replay(path, tier):
    p = subprocess.run([PY, path], cwd=VERIF, env=_env(tier, real=True), capture_output=True, text=True, timeout=600)
    return p.returncode, (p.stdout + p.stderr)[-3000:]


def load_known(pid):
    path = os.path.join(VERIF, "known_findings.json")
    if not os.path.exists(path):
        return []
    with open(path) as f:
        data = json.load(f)
    return [e for e in data.get("findings", []) if e.get("property") == pid]


def in_region(entry, args):
    """args: dict name -> repr string. True when the counterexample lies in the entry's region."""
    try:
        vals = {k: eval(v, {"nan": float("nan"), "inf": float("inf")}) for k, v in args.items()}
        return bool(eval(entry["region"], {}, vals))
    except Exception:
        return False


def source_hashes(qualnames):
    out = {}
    for qn in qualnames:
        try:
            modname, _, attr = qn.partition(":")
            mod = importlib.import_module(modname)
            obj = mod
            for part in attr.split("."):
                obj = getattr(obj, part)
            if isinstance(obj, property):
                obj = obj.fget
            obj = getattr(obj, "__func__", obj)
            obj = getattr(obj, "_fget", obj)  # pptx lazyproperty
            src = inspect.getsource(obj)
            out[qn] = hashlib.sha1(src.encode()).hexdigest()[:12]
        except Exception as exc:
            out[qn] = "unresolved: %s" % type(exc).__name__
    return out


def main(argv=None):
    ap = argparse.ArgumentParser()
    ap.add_argument("pid")
    ap.add_argument("--tier", default=os.environ.get("VERIF_TIER", "quick"), choices=["quick", "thorough"])
    ap.add_argument("--jobs", type=int, default=int(os.environ.get("VERIF_JOBS", "16")))
    ap.add_argument("--only", default=None, help="comma-separated condition names")
    ap.add_argument("--no-evidence", action="store_true")
    ap.add_argument("--fail-fast", action="store_true",
                    help="stop at the first counterexample that reproduces on the real library (seed evaluation; implies --no-evidence)")
    a = ap.parse_args(argv)
    pid, tier = a.pid, a.tier
    seed = int(os.environ.get("VERIF_SEED", "0") or 0)
    t_start = time.time()

    harness_dir = os.path.join(VERIF, "harness")
    mods = sorted(f[:-3] for f in os.listdir(harness_dir) if f.startswith(pid) and f.endswith(".py"))
    if not mods:
        print("no harness for", pid)
        return 3
    conds = []
    for m in mods:
        modname = "harness." + m
        for c in list_conditions(modname, tier):
            if tier in c["tiers"]:
                c["module"] = modname
                conds.append(c)
    if a.only:
        only = set(a.only.split(","))
        conds = [c for c in conds if c["name"] in only]
    # deterministic order, longest first for packing; seed only rotates scheduling
    conds.sort(key=lambda c: (-c["timeout"], c["name"]))
    if seed and conds:
        k = seed % len(conds)
        conds = conds[k:] + conds[:k]

    known = load_known(pid)
    results = {}
    with cf.ThreadPoolExecutor(max_workers=a.jobs) as ex:
        futs = {ex.submit(_worker, c["module"], tier, seed, c["name"], c["timeout"]): c for c in conds}
        for fut in cf.as_completed(futs):
            c = futs[fut]
            r = fut.result()
            results[c["name"]] = r
            print("[%s] %-44s %-10s expect=%-7s paths=%-6s cpu=%-7s %s" % (
                pid, c["name"], r.get("status"), c["expect"], r.get("paths", "-"), r.get("cpu_s", r.get("wall_s", "-")),
                (r.get("message") or "")[:150].replace("\n", " ")), flush=True)
            if a.fail_fast and c["expect"] == "confirm" and r.get("status") in ("refuted", "violated") and not _STOP:
                probe_v, probe_e = [], []
                rp = (r.get("replay") or {}) if c["kind"] == "smt" else {"fn": c["name"], "module": c["module"], "args": r.get("args")}
                _handle_cex(pid, tier, c, r, rp, known, probe_v, [], probe_e)
                if probe_v:
                    globals()["_STOP"] = True
                    for f in futs:
                        f.cancel()
                    for p in list(_PROCS):
                        try:
                            p.kill()
                        except Exception:
                            pass
                    print("VIOLATION property=%s replay=%s" % (pid, probe_v[0]))
                    print("[%s] tier=%s fail-fast: stopped at %s" % (pid, tier, c["name"]))
                    sys.stdout.flush()
                    os._exit(1)

    violations, inconclusive, known_hits, harness_errors = [], [], [], []
    stale_known = []
    discharged = 0
    samples = []
    solver_s = 0.0
    queries = 0
    paths = 0
    for c in conds:
        r = results[c["name"]]
        st = r.get("status")
        solver_s += float(r.get("cpu_s") or r.get("solver_s") or 0)
        paths += int(r.get("paths") or 0)
        queries += int(r.get("queries") or (1 if c["kind"] == "x" else 0))
        if c["kind"] == "smt":
            if st == "holds":
                discharged += 1
                for s in (r.get("samples") or [])[:2]:
                    samples.append({"obligation": c["name"], "sample": s})
            elif st == "violated":
                _handle_cex(pid, tier, c, r, r.get("replay") or {}, known, violations, known_hits, harness_errors)
            else:
                inconclusive.append((c["name"], st, r.get("message")))
            continue
        if c["expect"] == "refute":
            if st == "refuted":
                discharged += 1
                samples.append({"twin": c["name"], "reached_with": r.get("args") or r.get("message")})
            else:
                inconclusive.append((c["name"], "twin-not-refuted:" + str(st), r.get("message")))
            continue
        if st == "confirmed":
            discharged += 1
            samples.append({"condition": c["name"], "doc": c["doc"][:400], "paths": r.get("paths")})
        elif st == "refuted":
            rp = {"fn": c["name"], "module": c["module"], "args": r.get("args")}
            _handle_cex(pid, tier, c, r, rp, known, violations, known_hits, harness_errors)
        else:
            inconclusive.append((c["name"], st, r.get("message")))

    # every listed known finding must still reproduce (else it is stale -> harness error)
    for e in known:
        if e.get("status", "known") != "known":
            continue
        w = e.get("witness")
        if not w:
            continue
        path = write_replay(pid, w["module"], w["fn"], w["args"], tier)
        rc, out = run_replay(path, tier)
        if rc == 1:
            print("KNOWN-FINDING: property=%s %s" % (pid, e["what"]))
            known_hits.append(e["id"])
        else:
            # the listed defect is gone on this tree (repaired upstream, or masked by another change): that is not an alarm
            print("NOTE: known finding %s does not reproduce on this tree (rc=%s); its region stays excluded from the search" % (e["id"], rc))
            stale_known.append(e["id"])

    encodes = sorted({q for c in conds for q in c.get("encodes", [])})
    sys.path[:0] = [os.path.join(REPO, "src")]
    ev = {
        "property_id": pid,
        "tier": tier,
        "seed": seed,
        "level": "other",
        "coverage": {
            "explanation": "bounded symbolic verification: each obligation is a CrossHair(z3) exploration of the real "
                           "python-pptx functions over symbolic inputs within the stated bound, or a direct SMT refutation "
                           "query generated from the live declarations; 'discharged' counts obligations confirmed over all "
                           "paths / unsat plus reachability twins refuted.",
            "obligations": len(conds),
            "discharged": discharged,
            "evaluations": max(1, paths + queries),
            "distinct_nontrivial": max(discharged, 0),
            "rule": "one evaluation = one symbolic path explored by CrossHair or one SMT query; an obligation counts as "
                    "non-trivial when it was decided (confirmed/unsat, or twin refuted) by the solver",
            "paths_explored": paths,
            "smt_queries": queries,
            "solver_cpu_s": round(solver_s, 2),
            "functions_encoded": source_hashes(encodes),
            "bounds": {c["name"]: c.get("bound") or c["doc"][:300] for c in conds},
            "inconclusive": [list(map(str, x)) for x in inconclusive],
            "harness_errors": [list(map(str, x)) for x in harness_errors],
            "known_findings_reproduced": known_hits,
            "known_findings_not_reproducing": stale_known,
            "samples": samples[:12] or [{"note": "nothing discharged"}],
            "checker_cmd": "bin/check %s --tier %s" % (pid, tier),
            "trusted_base": ["CrossHair 0.0.110", "z3 (z3-solver wheel)", "kit/pxml lxml stand-in (validated by kit/selftest.py)",
                             "kit/chkit CrossHair patches"],
        },
        "assumptions": sorted({x for c in conds for x in ([c["note"]] if c.get("note") else [])}) + [
            "stubs in force: pxml (pure-Python lxml.etree), DecStr, SymLength, symbolic %-format, traced getattr/setattr, pure-Python normpath",
            "claims hold within the bound stated per condition; nothing is claimed outside it",
        ],
        "wall_s": round(time.time() - t_start, 2),
        "violations": len(violations),
    }
    if not a.no_evidence:
        os.makedirs(os.path.join(VERIF, "evidence"), exist_ok=True)
        with open(os.path.join(VERIF, "evidence", pid + ".json"), "w") as f:
            json.dump(ev, f, indent=1, default=repr)

    for v in violations:
        print("VIOLATION property=%s replay=%s" % (pid, v))
    for n, st, msg in inconclusive:
        print("INCONCLUSIVE %s %s %s" % (n, st, (msg or "")[:300]))
    for n, msg in harness_errors:
        print("HARNESS-ERROR %s %s" % (n, (msg or "")[:600]))
    print("[%s] tier=%s obligations=%d discharged=%d violations=%d inconclusive=%d errors=%d wall=%.1fs" % (
        pid, tier, len(conds), discharged, len(violations), len(inconclusive), len(harness_errors), time.time() - t_start))
    if violations:
        return 1
    if inconclusive or harness_errors:
        return 3
    return 0


def _handle_cex(pid, tier, c, r, rp, known, violations, known_hits, harness_errors):
    args = rp.get("args")
    if args is None:
        harness_errors.append((c["name"], "counterexample without captured arguments: %s %s" % (r.get("message"), r.get("capture_error"))))
        return
    path = write_replay(pid, rp.get("module", c["module"]), rp["fn"], args, tier)
    rc, out = run_replay(path, tier)
    if rc != 1:
        harness_errors.append((c["name"], "counterexample %s did not reproduce on the real library (rc=%s): %s | symbolic run said: %s %s" % (
            args, rc, out[-400:], r.get("message"), (r.get("traceback") or "")[-600:])))
        return
    for e in known:
        if e.get("status", "known") == "known" and e.get("condition") == c["name"] and in_region(e, args):
            # listed: not a new violation (the witness replay below prints the KNOWN-FINDING line)
            harness_errors.append((c["name"], "search stopped at listed finding %s; add `pre: not excluded(...)` to keep searching" % e["id"]))
            return
    print("  counterexample %s: %s" % (c["name"], args))
    print("  replay output: " + out.strip()[-800:].replace("\n", "\n    "))
    violations.append(path)


if __name__ == "__main__":
    sys.exit(main())
