"""xsdmodel -- reads the XSD files shipped in /repo/spec and turns them into:

* simple types: base chain, facets (min/max inclusive/exclusive, enumeration, pattern, length),
  union members, list item type;
* complex types: content model as a particle tree (sequence / choice / element / any / group ref
  resolved) with min/maxOccurs, and attribute declarations (name, type, use, default, attributeGroup
  resolved);
* a DFA per content model over child Clark names (+ a wildcard symbol), optionally with every
  minOccurs relaxed to 0 (a parent under construction may lack required children).

Parsed with xml.etree.ElementTree (stdlib): independent of lxml and of the pxml stand-in.
The schemas are the oracle; they are data shipped in the repository, read afresh on every run.
"""
from __future__ import annotations

import os
import xml.etree.ElementTree as ET

XS = "http://www.w3.org/2001/XMLSchema"
WILDCARD = "##any"
UNBOUNDED = 10**9

REPO = os.environ.get("VERIF_REPO", "/repo")
XSD4 = os.path.join(REPO, "spec", "ISO-IEC-29500-4", "xsd")
OPC = os.path.join(REPO, "spec", "ISO-IEC-29500-2", "opc-xsd")
DEFAULT_FILES = [
    os.path.join(XSD4, f)
    for f in ("pml.xsd", "dml-main.xsd", "dml-chart.xsd", "dml-chartDrawing.xsd", "dml-picture.xsd",
              "shared-commonSimpleTypes.xsd", "shared-relationshipReference.xsd")
] + [os.path.join(OPC, f) for f in ("opc-coreProperties.xsd", "opc-contentTypes.xsd", "opc-relationships.xsd")]

BUILTIN_INT_RANGES = {
    "byte": (-128, 127), "short": (-32768, 32767), "int": (-(2**31), 2**31 - 1), "long": (-(2**63), 2**63 - 1),
    "unsignedByte": (0, 255), "unsignedShort": (0, 65535), "unsignedInt": (0, 2**32 - 1),
    "unsignedLong": (0, 2**64 - 1), "integer": (None, None), "nonNegativeInteger": (0, None),
    "positiveInteger": (1, None), "nonPositiveInteger": (None, 0), "negativeInteger": (None, -1),
}
BUILTIN_KINDS = {
    **{k: "int" for k in BUILTIN_INT_RANGES},
    "double": "float", "float": "float", "decimal": "decimal", "boolean": "boolean",
    "string": "string", "token": "string", "normalizedString": "string", "NCName": "string", "ID": "string",
    "anyURI": "string", "hexBinary": "hex", "base64Binary": "string", "dateTime": "string", "NMTOKEN": "string",
    "anySimpleType": "string", "language": "string", "QName": "string",
}


def q(tag):
    return "{%s}%s" % (XS, tag)


class SimpleType:
    def __init__(self, ns, name):
        self.ns, self.name = ns, name
        self.base = None  # (ns, name) or None
        self.facets = {}  # minInclusive..., enumeration: [..], pattern: [..]
        self.union = None  # list of (ns, name) / SimpleType
        self.list_item = None

    def __repr__(self):
        return "<ST %s>" % self.name


class Particle:
    """kind in {'element','any','sequence','choice','all'}"""

    def __init__(self, kind, min_=1, max_=1, name=None, type_=None, children=None):
        self.kind, self.min, self.max, self.name, self.type, self.children = kind, min_, max_, name, type_, children or []

    def __repr__(self):
        if self.kind == "element":
            return "%s{%s,%s}" % (self.name.split("}")[-1], self.min, "*" if self.max >= UNBOUNDED else self.max)
        return "%s{%s,%s}(%s)" % (self.kind, self.min, "*" if self.max >= UNBOUNDED else self.max,
                                  ", ".join(map(repr, self.children)))


class Attribute:
    def __init__(self, name, type_, use, default):
        self.name, self.type, self.use, self.default = name, type_, use, default

    def __repr__(self):
        return "@%s:%s" % (self.name, self.type)


class ComplexType:
    def __init__(self, ns, name):
        self.ns, self.name = ns, name
        self.content = None  # Particle or None (empty)
        self.attributes = []
        self.any_attribute = False
        self.mixed = False
        self.simple_content = None

    def __repr__(self):
        return "<CT %s>" % self.name

    def child_names(self):
        out = []

        def walk(p):
            if p is None:
                return
            if p.kind == "element":
                if p.name not in out:
                    out.append(p.name)
            elif p.kind == "any":
                if WILDCARD not in out:
                    out.append(WILDCARD)
            else:
                for c in p.children:
                    walk(c)

        walk(self.content)
        return out

    def child_types(self):
        """Clark name -> set of (ns, typename) of local element declarations."""
        out = {}

        def walk(p):
            if p is None:
                return
            if p.kind == "element":
                out.setdefault(p.name, set()).add(p.type)
            elif p.kind != "any":
                for c in p.children:
                    walk(c)

        walk(self.content)
        return out


class Schemas:
    def __init__(self, files=None):
        self.simple = {}
        self.complex = {}
        self.elements = {}  # top-level: clark -> (ns, type)
        self.groups = {}
        self.attr_groups = {}
        self.top_attributes = {}
        self._raw = []
        for f in files or DEFAULT_FILES:
            self._load(f)
        for ns, root, nsmap in self._raw:
            self._index(ns, root, nsmap)

    # -- loading -------------------------------------------------------------------------------
    def _load(self, path):
        nsmap = {}
        for event, item in ET.iterparse(path, events=("start-ns",)):
            nsmap.setdefault(item[0], item[1])
        root = ET.parse(path).getroot()
        ns = root.get("targetNamespace")
        self._raw.append((ns, root, nsmap))

    @staticmethod
    def _qn(ref, ns, nsmap):
        if ref is None:
            return None
        if ":" in ref:
            pfx, local = ref.split(":", 1)
            if pfx == "xml" and pfx not in nsmap:
                return ("http://www.w3.org/XML/1998/namespace", local)
            return (nsmap[pfx], local)
        return (nsmap.get("", ns), ref)

    def _index(self, ns, root, nsmap):
        form_q = root.get("elementFormDefault") == "qualified"
        for e in root:
            if e.tag == q("simpleType"):
                st = self._simple(e, ns, nsmap, e.get("name"))
                self.simple[(ns, st.name)] = st
            elif e.tag == q("complexType"):
                self.complex[(ns, e.get("name"))] = ("raw", e, ns, nsmap, form_q)
            elif e.tag == q("element"):
                t = e.get("type")
                if t is None:
                    inner = e.find(q("complexType"))
                    if inner is not None:
                        anon = "__anon_%s" % e.get("name")
                        self.complex[(ns, anon)] = ("raw", inner, ns, nsmap, form_q)
                        self.elements["{%s}%s" % (ns, e.get("name"))] = (ns, anon)
                    continue
                self.elements["{%s}%s" % (ns, e.get("name"))] = self._qn(t, ns, nsmap)
            elif e.tag == q("group"):
                self.groups[(ns, e.get("name"))] = (e, ns, nsmap, form_q)
            elif e.tag == q("attributeGroup"):
                self.attr_groups[(ns, e.get("name"))] = (e, ns, nsmap)
            elif e.tag == q("attribute"):
                self.top_attributes[(ns, e.get("name"))] = (e, ns, nsmap)

    def _simple(self, e, ns, nsmap, name):
        st = SimpleType(ns, name)
        r = e.find(q("restriction"))
        if r is not None:
            st.base = self._qn(r.get("base"), ns, nsmap)
            if st.base is None:
                inner = r.find(q("simpleType"))
                if inner is not None:
                    st.base = self._simple(inner, ns, nsmap, None)
            for f in r:
                local = f.tag.split("}")[1]
                if local in ("enumeration", "pattern"):
                    st.facets.setdefault(local, []).append(f.get("value"))
                elif local in ("minInclusive", "maxInclusive", "minExclusive", "maxExclusive", "length",
                               "minLength", "maxLength", "whiteSpace", "totalDigits", "fractionDigits"):
                    st.facets[local] = f.get("value")
        u = e.find(q("union"))
        if u is not None:
            st.union = [self._qn(m, ns, nsmap) for m in (u.get("memberTypes") or "").split()]
            for inner in u.findall(q("simpleType")):
                st.union.append(self._simple(inner, ns, nsmap, None))
        l = e.find(q("list"))
        if l is not None:
            st.list_item = self._qn(l.get("itemType"), ns, nsmap)
        return st

    # -- complex types -------------------------------------------------------------------------
    def ctype(self, key):
        v = self.complex.get(key)
        if v is None:
            return None
        if isinstance(v, ComplexType):
            return v
        _, e, ns, nsmap, form_q = v
        ct = ComplexType(key[0], key[1])
        self.complex[key] = ct
        ct.mixed = e.get("mixed") == "true"
        body = e
        cc = e.find(q("complexContent"))
        if cc is not None:
            ext = cc.find(q("extension"))
            res = cc.find(q("restriction"))
            body = ext if ext is not None else res
            base = self.ctype(self._qn(body.get("base"), ns, nsmap)) if body is not None else None
        else:
            base = None
        sc = e.find(q("simpleContent"))
        if sc is not None:
            body = sc.find(q("extension")) if sc.find(q("extension")) is not None else sc.find(q("restriction"))
            ct.simple_content = self._qn(body.get("base"), ns, nsmap)
        parts = []
        for c in body:
            p = self._particle(c, ns, nsmap, form_q)
            if p is not None:
                parts.append(p)
        own = parts[0] if parts else None
        if base is not None and cc is not None and cc.find(q("extension")) is not None:
            seq = [x for x in (base.content, own) if x is not None]
            ct.content = Particle("sequence", 1, 1, children=seq) if seq else None
            ct.attributes = list(base.attributes)
        else:
            ct.content = own
        ct.attributes += self._attributes(body, ns, nsmap)
        ct.any_attribute = body.find(q("anyAttribute")) is not None
        return ct

    def _occurs(self, e):
        mn = int(e.get("minOccurs", "1"))
        mx = e.get("maxOccurs", "1")
        return mn, (UNBOUNDED if mx == "unbounded" else int(mx))

    def _particle(self, e, ns, nsmap, form_q):
        tag = e.tag
        if tag == q("element"):
            mn, mx = self._occurs(e)
            ref = e.get("ref")
            if ref is not None:
                rns, rname = self._qn(ref, ns, nsmap)
                clark = "{%s}%s" % (rns, rname)
                return Particle("element", mn, mx, name=clark, type_=self.elements.get(clark))
            name = e.get("name")
            qualified = form_q if e.get("form") is None else e.get("form") == "qualified"
            clark = "{%s}%s" % (ns, name) if qualified else name
            t = e.get("type")
            if t is None:
                inner = e.find(q("complexType"))
                if inner is not None:
                    anon = "__anon_%s_%d" % (name, id(e))
                    self.complex[(ns, anon)] = ("raw", inner, ns, nsmap, form_q)
                    return Particle("element", mn, mx, name=clark, type_=(ns, anon))
                return Particle("element", mn, mx, name=clark, type_=(XS, "anyType"))
            return Particle("element", mn, mx, name=clark, type_=self._qn(t, ns, nsmap))
        if tag == q("any"):
            mn, mx = self._occurs(e)
            return Particle("any", mn, mx)
        if tag in (q("sequence"), q("choice"), q("all")):
            mn, mx = self._occurs(e)
            kids = [self._particle(c, ns, nsmap, form_q) for c in e]
            return Particle(tag.split("}")[1], mn, mx, children=[k for k in kids if k is not None])
        if tag == q("group"):
            mn, mx = self._occurs(e)
            ge, gns, gnsmap, gform = self.groups[self._qn(e.get("ref"), ns, nsmap)]
            inner = [self._particle(c, gns, gnsmap, gform) for c in ge]
            inner = [k for k in inner if k is not None]
            if not inner:
                return None
            p = inner[0]
            if (mn, mx) == (1, 1):
                return p
            return Particle("sequence", mn, mx, children=[p])
        return None

    def _attributes(self, body, ns, nsmap):
        out = []
        for a in body:
            if a.tag == q("attribute"):
                ref = a.get("ref")
                if ref is not None:
                    rns, rname = self._qn(ref, ns, nsmap)
                    te = self.top_attributes.get((rns, rname))
                    t = self._qn(te[0].get("type"), te[1], te[2]) if te is not None and te[0].get("type") else (XS, "string")
                    out.append(Attribute("{%s}%s" % (rns, rname), t, a.get("use", "optional"), a.get("default")))
                    continue
                t = a.get("type")
                if t is None:
                    inner = a.find(q("simpleType"))
                    tt = self._simple(inner, ns, nsmap, None) if inner is not None else (XS, "string")
                else:
                    tt = self._qn(t, ns, nsmap)
                name = a.get("name")
                if a.get("form") == "qualified":
                    name = "{%s}%s" % (ns, name)
                out.append(Attribute(name, tt, a.get("use", "optional"), a.get("default")))
            elif a.tag == q("attributeGroup"):
                ge, gns, gnsmap = self.attr_groups[self._qn(a.get("ref"), ns, nsmap)]
                out += self._attributes(ge, gns, gnsmap)
        return out

    # -- simple type queries -------------------------------------------------------------------
    def stype(self, key):
        if isinstance(key, SimpleType):
            return key
        return self.simple.get(key)

    def kind(self, key):
        """'int' | 'float' | 'decimal' | 'boolean' | 'string' | 'hex' | 'union' | 'list' | None"""
        if isinstance(key, tuple) and key[0] == XS:
            return BUILTIN_KINDS.get(key[1])
        st = self.stype(key)
        if st is None:
            return None
        if st.union is not None:
            return "union"
        if st.list_item is not None:
            return "list"
        return self.kind(st.base)

    def int_range(self, key):
        """(lo, hi) (None = unbounded) for an integer-derived type."""
        if isinstance(key, tuple) and key[0] == XS:
            return BUILTIN_INT_RANGES.get(key[1])
        st = self.stype(key)
        if st is None or st.base is None:
            return None
        r = self.int_range(st.base)
        if r is None:
            return None
        lo, hi = r
        f = st.facets
        def tight(cur, new, pick):
            return new if cur is None else pick(cur, new)
        if "minInclusive" in f:
            lo = tight(lo, int(f["minInclusive"]), max)
        if "minExclusive" in f:
            lo = tight(lo, int(f["minExclusive"]) + 1, max)
        if "maxInclusive" in f:
            hi = tight(hi, int(f["maxInclusive"]), min)
        if "maxExclusive" in f:
            hi = tight(hi, int(f["maxExclusive"]) - 1, min)
        return lo, hi

    def enumeration(self, key):
        """Allowed tokens for a string-derived enumeration type (None when not enumerated)."""
        st = self.stype(key)
        while st is not None:
            if "enumeration" in st.facets:
                return list(st.facets["enumeration"])
            st = self.stype(st.base) if st.base is not None else None
        return None

    def patterns(self, key):
        """List of pattern lists along the derivation chain (each level: alternatives, all levels must match)."""
        out = []
        st = self.stype(key)
        while st is not None:
            if "pattern" in st.facets:
                out.append(list(st.facets["pattern"]))
            st = self.stype(st.base) if st.base is not None else None
        return out

    def union_members(self, key):
        st = self.stype(key)
        if st is None or st.union is None:
            return [key]
        out = []
        for m in st.union:
            out += self.union_members(m)
        return out

    def find_simple(self, name):
        """All simple types with this local name (several namespaces may declare one)."""
        return [st for (ns, n), st in self.simple.items() if n == name]

    def find_complex(self, name):
        return [self.ctype(k) for k in list(self.complex) if k[1] == name]

    def accepts_lexical(self, key, s):
        """Concrete validator: is string `s` in the lexical space of simple type `key`?"""
        import re

        if isinstance(key, tuple) and key[0] == XS:
            k = BUILTIN_KINDS.get(key[1], "string")
            if k == "int":
                if not re.fullmatch(r"[+-]?[0-9]+", s.strip()):
                    return False
                lo, hi = BUILTIN_INT_RANGES[key[1]]
                v = int(s)
                return (lo is None or v >= lo) and (hi is None or v <= hi)
            if k in ("float", "decimal"):
                if k == "float" and s.strip() in ("INF", "-INF", "NaN"):
                    return True
                pat = r"[+-]?([0-9]+(\.[0-9]*)?|\.[0-9]+)" + (r"([eE][+-]?[0-9]+)?" if k == "float" else "")
                return re.fullmatch(pat, s.strip()) is not None
            if k == "boolean":
                return s.strip() in ("true", "false", "1", "0")
            if k == "hex":
                return re.fullmatch(r"([0-9a-fA-F]{2})*", s) is not None
            return True
        st = self.stype(key)
        if st is None:
            return True
        if st.union is not None:
            return any(self.accepts_lexical(m, s) for m in st.union)
        if st.list_item is not None:
            return all(self.accepts_lexical(st.list_item, t) for t in s.split())
        if st.base is not None and not self.accepts_lexical(st.base, s):
            return False
        f = st.facets
        if "enumeration" in f and s not in f["enumeration"]:
            return False
        if "pattern" in f and not any(re.fullmatch(_xsd_re(p), s) for p in f["pattern"]):
            return False
        k = self.kind(key)
        if k in ("int", "float", "decimal"):
            try:
                v = int(s) if k == "int" else float(s)
            except ValueError:
                return False
            if "minInclusive" in f and v < float(f["minInclusive"]):
                return False
            if "maxInclusive" in f and v > float(f["maxInclusive"]):
                return False
            if "minExclusive" in f and v <= float(f["minExclusive"]):
                return False
            if "maxExclusive" in f and v >= float(f["maxExclusive"]):
                return False
        if "length" in f:
            n = len(s) // 2 if k == "hex" else len(s)
            if n != int(f["length"]):
                return False
        if "maxLength" in f and len(s) > int(f["maxLength"]):
            return False
        if "minLength" in f and len(s) < int(f["minLength"]):
            return False
        return True


def _xsd_re(p):
    # XSD regex -> Python: the patterns in these schemas use only syntax common to both
    return p.replace("\\i", "[A-Za-z_:]").replace("\\c", "[-.0-9A-Za-z_:]")


# ---------------------------------------------------------------------------------------------
# content model -> DFA
# ---------------------------------------------------------------------------------------------


class DFA:
    """Deterministic automaton over an explicit alphabet (list of symbols). state 0 = start;
    `trans[state][symbol_index]` = next state or -1 (dead)."""

    def __init__(self, alphabet, trans, accepting):
        self.alphabet, self.trans, self.accepting = alphabet, trans, accepting

    def index(self, sym):
        try:
            return self.alphabet.index(sym)
        except ValueError:
            return self.alphabet.index(WILDCARD) if WILDCARD in self.alphabet else -1

    def accepts(self, seq):
        s = 0
        for sym in seq:
            i = self.index(sym)
            if i < 0:
                return False
            s = self.trans[s][i]
            if s < 0:
                return False
        return s in self.accepting

    def first_error(self, seq):
        """Index of the first symbol at which the run dies, len(seq) if it ends in a non-accepting
        state, or None when accepted."""
        s = 0
        for k, sym in enumerate(seq):
            i = self.index(sym)
            if i < 0:
                return k
            s = self.trans[s][i]
            if s < 0:
                return k
        return None if s in self.accepting else len(seq)


def compile_dfa(particle, relax_min=False, max_copies=3):
    """Thompson construction + subset construction. Bounded maxOccurs n>1 is expanded to n copies
    when n <= max_copies, otherwise treated as unbounded (over-approximation, recorded by caller)."""
    alphabet = []

    def sym(s):
        if s not in alphabet:
            alphabet.append(s)
        return alphabet.index(s)

    eps = {}  # state -> set(states)
    edges = {}  # state -> list[(symidx, state)]
    counter = [0]

    def new():
        counter[0] += 1
        return counter[0] - 1

    def add_eps(a, b):
        eps.setdefault(a, set()).add(b)

    def build(p):
        """returns (start, end)"""
        mn = 0 if relax_min else p.min
        mx = p.max

        def once():
            if p.kind == "element" or p.kind == "any":
                a, b = new(), new()
                edges.setdefault(a, []).append((sym(p.name if p.kind == "element" else WILDCARD), b))
                return a, b
            if p.kind == "sequence":
                a = new()
                cur = a
                for c in p.children:
                    s, e = build(c)
                    add_eps(cur, s)
                    cur = e
                b = new()
                add_eps(cur, b)
                return a, b
            if p.kind == "choice":
                a, b = new(), new()
                for c in p.children:
                    s, e = build(c)
                    add_eps(a, s)
                    add_eps(e, b)
                if not p.children:
                    add_eps(a, b)
                return a, b
            if p.kind == "all":
                # each child at most once (min relaxed or not), any order: build via subsets is
                # exponential; these schemas use xsd:all only for core properties (handled apart).
                a = new()
                add_eps(a, a)
                b = new()
                for c in p.children:
                    s, e = build(c)
                    add_eps(a, s)
                    add_eps(e, a)
                add_eps(a, b)
                return a, b
            raise ValueError(p.kind)

        start = new()
        cur = start
        end = new()
        if mx >= UNBOUNDED or mx > max_copies:
            for _ in range(mn):
                s, e = once()
                add_eps(cur, s)
                cur = e
            s, e = once()
            add_eps(cur, s)
            add_eps(e, s)
            add_eps(e, end)
            add_eps(cur, end)
        else:
            for k in range(mx):
                s, e = once()
                add_eps(cur, s)
                if k >= mn:
                    add_eps(cur, end)
                cur = e
            add_eps(cur, end)
        return start, end

    if particle is None:
        return DFA([], [[]], {0})
    s0, e0 = build(particle)

    def closure(states):
        stack = list(states)
        seen = set(states)
        while stack:
            x = stack.pop()
            for y in eps.get(x, ()):
                if y not in seen:
                    seen.add(y)
                    stack.append(y)
        return frozenset(seen)

    start = closure({s0})
    dstates = {start: 0}
    order = [start]
    trans = []
    i = 0
    while i < len(order):
        cur = order[i]
        row = []
        for si in range(len(alphabet)):
            nxt = set()
            for st in cur:
                for (sy, to) in edges.get(st, ()):
                    if sy == si:
                        nxt.add(to)
            if not nxt:
                row.append(-1)
                continue
            c = closure(nxt)
            if c not in dstates:
                dstates[c] = len(order)
                order.append(c)
            row.append(dstates[c])
        trans.append(row)
        i += 1
        # alphabet may have grown? no: all symbols were registered during build()
    accepting = {dstates[c] for c in order if e0 in c}
    return DFA(alphabet, trans, accepting)


_cache = {}


def schemas():
    if "s" not in _cache:
        _cache["s"] = Schemas()
    return _cache["s"]


# ---------------------------------------------------------------------------------------------
# tree validator (oracle for C03/C07/C18): works on lxml elements and on pxml elements alike
# ---------------------------------------------------------------------------------------------

_dfa_cache = {}


def dfa_for(ct, relax_min=False):
    key = (ct.ns, ct.name, relax_min)
    d = _dfa_cache.get(key)
    if d is None:
        d = _dfa_cache[key] = compile_dfa(ct.content, relax_min=relax_min)
    return d


MC_NS = "http://schemas.openxmlformats.org/markup-compatibility/2006"
XML_NS = "http://www.w3.org/XML/1998/namespace"


def validate_element(S, elm, type_key, errors, path="", relax_min=False, check_attr_values=True, max_errors=20):
    """Validate `elm` (and its subtree) against complex type `type_key`. Appends messages to `errors`."""
    if len(errors) >= max_errors:
        return
    ct = S.ctype(type_key) if isinstance(type_key, tuple) else type_key
    here = path + "/" + elm.tag.split("}")[-1]
    if ct is None:
        return  # simple-typed or unknown: nothing structural to check
    # markup-compatibility preprocessing: mc:AlternateContent (and any other mc: element) is transparent here
    kids = [c for c in elm if isinstance(c.tag, str) and not c.tag.startswith("{%s}" % MC_NS)]
    d = dfa_for(ct, relax_min)
    seq = [c.tag for c in kids]
    bad = d.first_error(seq)
    if bad is not None:
        what = "ends too early (required child missing)" if bad == len(seq) else "child #%d <%s> not allowed here" % (bad, seq[bad].split("}")[-1])
        errors.append("%s: content %s: %s" % (here, [t.split("}")[-1] for t in seq], what))
    declared = {a.name: a for a in ct.attributes}
    for k, v in elm.attrib.items():
        if k.startswith("{%s}" % MC_NS) or k.startswith("{%s}" % XML_NS) or k.startswith("{http://www.w3.org/2001/XMLSchema-instance}"):
            continue
        a = declared.get(k)
        if a is None:
            if not ct.any_attribute:
                errors.append("%s: attribute %s not declared on %s" % (here, k, ct.name))
            continue
        if check_attr_values and isinstance(v, str) and not S.accepts_lexical(a.type, v):
            errors.append("%s: attribute %s=%r not in lexical space of %s" % (here, k, v, getattr(a.type, "name", a.type)))
    if not relax_min:
        for a in ct.attributes:
            if a.use == "required" and elm.get(a.name) is None:
                errors.append("%s: required attribute %s missing" % (here, a.name))
    ctypes = ct.child_types()
    for c in kids:
        ts = ctypes.get(c.tag)
        if not ts:
            continue  # matched by wildcard (or already reported)
        if len(ts) == 1:
            t = next(iter(ts))
            if t is not None and t in S.complex:
                validate_element(S, c, t, errors, here, relax_min, check_attr_values, max_errors)


def validate_root(S, root, **kw):
    errors = []
    t = S.elements.get(root.tag)
    if t is None:
        return ["no top-level element declaration for %s" % root.tag]
    validate_element(S, root, t, errors, **kw)
    return errors


def _tag_index(S):
    """Clark tag -> set of complex-type keys, over every local and top-level element declaration."""
    idx = getattr(S, "_tag_idx", None)
    if idx is not None:
        return idx
    idx = {}
    for clark, t in S.elements.items():
        idx.setdefault(clark, set()).add(t)
    done = set()
    pending = list(S.complex)
    while pending:
        k = pending.pop()
        if k in done:
            continue
        done.add(k)
        ct = S.ctype(k)
        if ct is None:
            continue
        for clark, ts in ct.child_types().items():
            for t in ts:
                if t is not None:
                    idx.setdefault(clark, set()).add(t)
        for k2 in list(S.complex):
            if k2 not in done:
                pending.append(k2)
    S._tag_idx = idx
    return idx


def types_for_tag(S, clark):
    return sorted(t for t in _tag_index(S).get(clark, ()) if t in S.complex)


def attr_types_for(S, clark, attr_name):
    """All XSD simple types declared for attribute `attr_name` on any complex type an element with tag
    `clark` can have."""
    out = []
    for t in types_for_tag(S, clark):
        ct = S.ctype(t)
        for a in ct.attributes:
            if a.name == attr_name and a.type not in out:
                out.append(a.type)
    return out


def precompile_all(S, relax=(False,)):
    """Compile the DFA of every complex type now (harness import time, outside CrossHair): compiling lazily inside a
    CrossHair run fails (frozenset hashing under its interpreter hooks) and would be repeated on every path."""
    _tag_index(S)
    for key in list(S.complex):
        ct = S.ctype(key)
        if ct is not None:
            for r in relax:
                dfa_for(ct, r)
