"""pxml -- pure-Python stand-in for the subset of `lxml.etree` python-pptx uses.

Purpose: let symbolic values (CrossHair) survive where real lxml/libxml2 (C code) would
realize them.  Contract = lxml's documented behaviour for this subset; validated against real
lxml by kit/selftest.py (corpus parse/serialise comparison) and every counterexample found on
this stub is replayed on real lxml before it is reported.

An XPath expression or API call outside the supported subset raises, so that it shows up as a
harness error and never as a wrong answer.
"""

from __future__ import annotations

import copy as _copy
import re as _re
from xml.parsers import expat as _expat

__stub__ = "pxml"

XML_NS = "http://www.w3.org/XML/1998/namespace"


class LxmlError(Exception):
    pass


class XMLSyntaxError(LxmlError, SyntaxError):
    pass


class XPathEvalError(LxmlError):
    pass


# ---------------------------------------------------------------------------------------------
# class lookup
# ---------------------------------------------------------------------------------------------


class _NsRegistry(dict):
    pass


class ElementNamespaceClassLookup:
    def __init__(self, fallback=None):
        self._ns = {}

    def get_namespace(self, uri):
        reg = self._ns.get(uri)
        if reg is None:
            reg = self._ns[uri] = _NsRegistry()
        return reg

    def _lookup(self, clark):
        if clark[:1] == "{":
            uri, local = clark[1:].split("}", 1)
        else:
            uri, local = None, clark
        reg = self._ns.get(uri)
        if reg is not None:
            cls = reg.get(local)
            if cls is not None:
                return cls
        return None


# ---------------------------------------------------------------------------------------------
# elements
# ---------------------------------------------------------------------------------------------


class _Attrib:
    """Ordered attribute mapping (proxy semantics are not needed: one object per element)."""

    __slots__ = ("_d",)

    def __init__(self):
        self._d = {}

    def __contains__(self, k):
        return k in self._d

    def __getitem__(self, k):
        return self._d[k]

    def __setitem__(self, k, v):
        self._d[k] = v

    def __delitem__(self, k):
        del self._d[k]

    def __iter__(self):
        return iter(list(self._d))

    def __len__(self):
        return len(self._d)

    def get(self, k, default=None):
        return self._d.get(k, default)

    def keys(self):
        return list(self._d.keys())

    def values(self):
        return list(self._d.values())

    def items(self):
        return list(self._d.items())

    def pop(self, k, *default):
        return self._d.pop(k, *default)

    def update(self, other):
        for k, v in dict(other).items():
            self._d[k] = v

    def __repr__(self):
        return repr(self._d)


class _Element:
    """Element node. Internal state uses the `_px_` prefix to stay clear of pptx attribute names."""

    def __init__(self, *a, **k):
        # lxml's ElementBase() constructor is not used by python-pptx
        raise TypeError("pxml elements are created by a parser (makeelement/fromstring)")

    @classmethod
    def _px_make(cls, tag, nsmap=None, parser=None):
        self = cls.__new__(cls)
        d = self.__dict__
        d["_px_tag"] = tag
        d["_px_attrib"] = _Attrib()
        d["_px_children"] = []
        d["_px_parent"] = None
        d["_px_text"] = None
        d["_px_tail"] = None
        d["_px_nsmap"] = dict(nsmap) if nsmap else {}
        d["_px_parser"] = parser
        return self

    # -- basic node properties ---------------------------------------------------------------
    @property
    def tag(self):
        return self.__dict__["_px_tag"]

    @property
    def attrib(self):
        return self.__dict__["_px_attrib"]

    @property
    def text(self):
        return self.__dict__["_px_text"]

    @text.setter
    def text(self, value):
        if value is not None and not isinstance(value, (str, bytes)):
            raise TypeError("Argument must be bytes or unicode, got '%s'" % type(value).__name__)
        self.__dict__["_px_text"] = value

    @property
    def tail(self):
        return self.__dict__["_px_tail"]

    @tail.setter
    def tail(self, value):
        self.__dict__["_px_tail"] = value

    @property
    def nsmap(self):
        # effective namespace map: own declarations over ancestors'
        chain = []
        e = self
        while e is not None:
            chain.append(e.__dict__["_px_nsmap"])
            e = e.__dict__["_px_parent"]
        out = {}
        for m in reversed(chain):
            out.update(m)
        return out

    @property
    def prefix(self):
        tag = self.tag
        if tag[:1] != "{":
            return None
        uri = tag[1:].split("}", 1)[0]
        for p, u in self.nsmap.items():
            if u == uri:
                return p
        return None

    # -- attributes ---------------------------------------------------------------------------
    def get(self, key, default=None):
        return self.__dict__["_px_attrib"]._d.get(key, default)

    def set(self, key, value):
        if not isinstance(value, (str, bytes)):
            raise TypeError("Argument must be bytes or unicode, got '%s'" % type(value).__name__)
        self.__dict__["_px_attrib"]._d[key] = value

    def keys(self):
        return self.__dict__["_px_attrib"].keys()

    def items(self):
        return self.__dict__["_px_attrib"].items()

    # -- container protocol -------------------------------------------------------------------
    def __len__(self):
        return len(self.__dict__["_px_children"])

    def __bool__(self):
        return True

    def __iter__(self):
        return iter(list(self.__dict__["_px_children"]))

    def __reversed__(self):
        return iter(list(reversed(self.__dict__["_px_children"])))

    def __getitem__(self, i):
        r = self.__dict__["_px_children"][i]
        return list(r) if isinstance(i, slice) else r

    def __delitem__(self, i):
        kids = self.__dict__["_px_children"]
        doomed = kids[i] if isinstance(i, slice) else [kids[i]]
        for c in list(doomed):
            self.remove(c)

    def __contains__(self, e):
        return any(c is e for c in self.__dict__["_px_children"])

    def __copy__(self):
        return self.__deepcopy__({})

    def __deepcopy__(self, memo):
        d = self.__dict__
        new = type(self)._px_make(d["_px_tag"], self.nsmap, d["_px_parser"])
        nd = new.__dict__
        for k, v in d["_px_attrib"]._d.items():
            nd["_px_attrib"]._d[k] = v
        nd["_px_text"] = d["_px_text"]
        # lxml's deepcopy of an element copies its tail as well
        nd["_px_tail"] = d["_px_tail"]
        for c in d["_px_children"]:
            cc = c.__deepcopy__(memo)
            cc.__dict__["_px_parent"] = new
            nd["_px_children"].append(cc)
        return new

    # -- tree navigation ----------------------------------------------------------------------
    def getparent(self):
        return self.__dict__["_px_parent"]

    def getroottree(self):
        return _ElementTree(self._px_root())

    def _px_root(self):
        e = self
        while e.__dict__["_px_parent"] is not None:
            e = e.__dict__["_px_parent"]
        return e

    def index(self, child, start=None, stop=None):
        for i, c in enumerate(self.__dict__["_px_children"]):
            if c is child:
                return i
        raise ValueError("Element is not a child of this node.")

    def getnext(self):
        p = self.__dict__["_px_parent"]
        if p is None:
            return None
        kids = p.__dict__["_px_children"]
        i = p.index(self)
        return kids[i + 1] if i + 1 < len(kids) else None

    def getprevious(self):
        p = self.__dict__["_px_parent"]
        if p is None:
            return None
        kids = p.__dict__["_px_children"]
        i = p.index(self)
        return kids[i - 1] if i > 0 else None

    def itersiblings(self, *tags, preceding=False):
        p = self.__dict__["_px_parent"]
        if p is None:
            return
        kids = list(p.__dict__["_px_children"])
        i = p.index(self)
        seq = reversed(kids[:i]) if preceding else kids[i + 1 :]
        for c in seq:
            if not tags or c.tag in tags:
                yield c

    def iterancestors(self, *tags):
        e = self.__dict__["_px_parent"]
        while e is not None:
            if not tags or e.tag in tags:
                yield e
            e = e.__dict__["_px_parent"]

    def iterchildren(self, *tags, reversed=False):
        kids = list(self.__dict__["_px_children"])
        if reversed:
            kids.reverse()
        for c in kids:
            if not tags or c.tag in tags or "*" in tags:
                yield c

    def iterdescendants(self, *tags):
        for c in list(self.__dict__["_px_children"]):
            yield from c.iter(*tags)

    def iter(self, *tags):
        if not tags or self.tag in tags or "*" in tags:
            yield self
        for c in list(self.__dict__["_px_children"]):
            yield from c.iter(*tags)

    def getchildren(self):
        return list(self.__dict__["_px_children"])

    # -- find (clark-name child paths only; what python-pptx uses) ------------------------------
    @staticmethod
    def _px_simple_path(path):
        if not isinstance(path, str):
            path = str(path)
        if path.startswith("./"):
            path = path[2:]
        # a Clark name may contain "/" inside the braces; split outside braces only
        parts, buf, depth = [], "", 0
        for ch in path:
            if ch == "{":
                depth += 1
            elif ch == "}":
                depth -= 1
            if ch == "/" and depth == 0:
                parts.append(buf)
                buf = ""
            else:
                buf += ch
        parts.append(buf)
        if any(p in ("", ".", "..") or "[" in p or p.startswith("@") for p in parts):
            raise NotImplementedError("pxml find path: %r" % path)
        return parts

    def _px_findall(self, path):
        nodes = [self]
        for name in self._px_simple_path(path):
            nxt = []
            for n in nodes:
                for c in n.__dict__["_px_children"]:
                    if name == "*" or c.tag == name:
                        nxt.append(c)
            nodes = nxt
        return nodes

    def find(self, path, namespaces=None):
        # fast path for the single Clark-name case
        if isinstance(path, str) and path[:1] == "{" and "/" not in path.split("}", 1)[1]:
            for c in self.__dict__["_px_children"]:
                if c.tag == path:
                    return c
            return None
        r = self._px_findall(path)
        return r[0] if r else None

    def findall(self, path, namespaces=None):
        return self._px_findall(path)

    def findtext(self, path, default=None, namespaces=None):
        e = self.find(path)
        if e is None:
            return default
        return e.text or ""

    # -- mutation -------------------------------------------------------------------------------
    def _px_detach(self):
        p = self.__dict__["_px_parent"]
        if p is not None:
            kids = p.__dict__["_px_children"]
            for i, c in enumerate(kids):
                if c is self:
                    del kids[i]
                    break
            # keep in-scope namespace declarations with the detached subtree
            self.__dict__["_px_nsmap"] = _merge_ns(p.nsmap, self.__dict__["_px_nsmap"])
            self.__dict__["_px_parent"] = None

    def _px_check_new_child(self, e):
        if not isinstance(e, _Element):
            raise TypeError("Argument 'element' has incorrect type")
        a = self
        while a is not None:
            if a is e:
                raise ValueError("cannot append parent to itself")
            a = a.__dict__["_px_parent"]

    def _px_adopt(self, e):
        """Drop namespace declarations in `e`'s subtree that are redundant in the new context
        (libxml2 reconciles by href when a node is moved under a new parent)."""
        uris = set(self.nsmap.values())
        if not uris:
            return
        stack = [e]
        while stack:
            n = stack.pop()
            own = n.__dict__["_px_nsmap"]
            if own:
                n.__dict__["_px_nsmap"] = {p: u for p, u in own.items() if u not in uris}
            stack.extend(n.__dict__["_px_children"])

    def append(self, e):
        self._px_check_new_child(e)
        e._px_detach()
        self._px_adopt(e)
        e.__dict__["_px_parent"] = self
        self.__dict__["_px_children"].append(e)

    def extend(self, elements):
        for e in list(elements):
            self.append(e)

    def insert(self, i, e):
        self._px_check_new_child(e)
        e._px_detach()
        self._px_adopt(e)
        e.__dict__["_px_parent"] = self
        self.__dict__["_px_children"].insert(i, e)

    def remove(self, e):
        if not isinstance(e, _Element) or e.__dict__["_px_parent"] is not self:
            raise ValueError("Element is not a child of this node.")
        e._px_detach()

    def replace(self, old, new):
        i = self.index(old)
        self._px_check_new_child(new)
        new._px_detach()
        i = self.index(old)
        old._px_detach()
        self._px_adopt(new)
        new.__dict__["_px_parent"] = self
        self.__dict__["_px_children"].insert(i, new)

    def clear(self, keep_tail=False):
        d = self.__dict__
        for c in list(d["_px_children"]):
            c._px_detach()
        d["_px_attrib"]._d.clear()
        d["_px_text"] = None
        if not keep_tail:
            d["_px_tail"] = None

    def addprevious(self, e):
        p = self.__dict__["_px_parent"]
        if p is None:
            raise TypeError("Only processing instructions and comments can be siblings of the root element")
        p._px_check_new_child(e)
        e._px_detach()
        i = p.index(self)
        p._px_adopt(e)
        e.__dict__["_px_parent"] = p
        p.__dict__["_px_children"].insert(i, e)

    def addnext(self, e):
        p = self.__dict__["_px_parent"]
        if p is None:
            raise TypeError("Only processing instructions and comments can be siblings of the root element")
        p._px_check_new_child(e)
        e._px_detach()
        i = p.index(self)
        p._px_adopt(e)
        e.__dict__["_px_parent"] = p
        p.__dict__["_px_children"].insert(i + 1, e)

    def makeelement(self, tag, attrib=None, nsmap=None, **extra):
        parser = self.__dict__["_px_parser"] or _default_parser
        return parser.makeelement(tag, attrib=attrib, nsmap=nsmap, **extra)

    # -- xpath ----------------------------------------------------------------------------------
    def xpath(self, expr, namespaces=None, **kw):
        return _xpath_eval(self, expr, namespaces or {})


class ElementBase(_Element):
    pass


def _merge_ns(outer, inner):
    m = dict(outer)
    m.update(inner)
    return m


class _ElementTree:
    def __init__(self, root):
        self._root = root

    def getroot(self):
        return self._root


class QName:
    def __init__(self, text_or_uri_or_element, tag=None):
        t = text_or_uri_or_element
        if isinstance(t, _Element):
            t = t.tag
        if tag is not None:
            t = "{%s}%s" % (t, tag)
        self.text = t
        if t[:1] == "{":
            self.namespace, self.localname = t[1:].split("}", 1)
        else:
            self.namespace, self.localname = None, t

    def __str__(self):
        return self.text


# ---------------------------------------------------------------------------------------------
# parser
# ---------------------------------------------------------------------------------------------


class XMLParser:
    def __init__(self, remove_blank_text=False, resolve_entities=True, **kw):
        self._lookup = None
        self.remove_blank_text = remove_blank_text
        self.resolve_entities = resolve_entities

    def set_element_class_lookup(self, lookup=None):
        self._lookup = lookup

    def makeelement(self, _tag, attrib=None, nsmap=None, **extra):
        cls = None
        if self._lookup is not None:
            cls = self._lookup._lookup(_tag)
        if cls is None:
            cls = _Element
        e = cls._px_make(_tag, nsmap, self)
        if attrib:
            for k, v in dict(attrib).items():
                e.set(k, v)
        for k, v in extra.items():
            e.set(k, v)
        return e


_default_parser = XMLParser()


def _clark(name):
    # expat with namespace_separator="}" yields "uri}local" for qualified names
    return "{" + name if "}" in name else name


_parse_hook = None  # set by kit for skeleton parsing of strings holding symbolic pieces


def fromstring(text, parser=None, base_url=None):
    if parser is None:
        parser = _default_parser
    if _parse_hook is not None:
        r = _parse_hook(text, parser)
        if r is not None:
            return r
    return _parse_concrete(text, parser)


XML = fromstring


def _parse_concrete(text, parser):
    if isinstance(text, str):
        if _re.match(r"\s*<\?xml[^>]*encoding", text):
            raise ValueError(
                "Unicode strings with encoding declaration are not supported. "
                "Please use bytes input or XML fragments without declaration."
            )
        data = text.encode("utf-8")
        p = _expat.ParserCreate("utf-8", namespace_separator="}")
    else:
        data = bytes(text)
        p = _expat.ParserCreate(namespace_separator="}")
    p.ordered_attributes = True
    p.buffer_text = True
    stack = []
    roots = []
    pending_ns = {}
    first_text_is_node = []  # parallel to stack: was the first child a (kept) text node?

    def start_ns(prefix, uri):
        pending_ns[prefix] = uri

    def start(name, attrs):
        ns = dict(pending_ns)
        pending_ns.clear()
        e = parser.makeelement(_clark(name), nsmap=ns)
        ad = e.__dict__["_px_attrib"]._d
        for i in range(0, len(attrs), 2):
            ad[_clark(attrs[i])] = attrs[i + 1]
        if stack:
            parent = stack[-1]
            e.__dict__["_px_parent"] = parent
            parent.__dict__["_px_children"].append(e)
        else:
            roots.append(e)
        stack.append(e)

    def end(name):
        stack.pop()

    def chars(data):
        if not stack:
            return
        cur = stack[-1]
        kids = cur.__dict__["_px_children"]
        if not kids:
            cur.__dict__["_px_text"] = (cur.__dict__["_px_text"] or "") + data
        else:
            last = kids[-1]
            last.__dict__["_px_tail"] = (last.__dict__["_px_tail"] or "") + data

    p.StartElementHandler = start
    p.EndElementHandler = end
    p.CharacterDataHandler = chars
    p.StartNamespaceDeclHandler = start_ns
    try:
        p.Parse(data, True)
    except _expat.ExpatError as exc:
        raise XMLSyntaxError(str(exc)) from None
    root = roots[0]
    if parser.remove_blank_text:
        _strip_blank(root)
    return root


def _strip_blank(root):
    """Approximation of libxml2's XML_PARSE_NOBLANKS heuristic (`areBlanks`): whitespace-only
    text between elements is dropped unless the parent's first child is a text node; a
    whitespace-only text that is an element's whole content is kept."""
    for e in root.iter():
        d = e.__dict__
        kids = d["_px_children"]
        if not kids:
            continue
        t = d["_px_text"]
        first_is_text = t is not None and t.strip(" \t\r\n") != ""
        if t is not None and not first_is_text:
            d["_px_text"] = None
        if not first_is_text:
            for c in kids:
                tl = c.__dict__["_px_tail"]
                if tl is not None and tl.strip(" \t\r\n") == "":
                    c.__dict__["_px_tail"] = None


def Element(_tag, attrib=None, nsmap=None, **extra):
    return _default_parser.makeelement(_tag, attrib=attrib, nsmap=nsmap, **extra)


def SubElement(_parent, _tag, attrib=None, nsmap=None, **extra):
    e = _parent.makeelement(_tag, attrib=attrib, nsmap=nsmap, **extra)
    _parent.append(e)
    return e


# ---------------------------------------------------------------------------------------------
# serialiser
# ---------------------------------------------------------------------------------------------


def _esc_text(s):
    return s.replace("&", "&amp;").replace("<", "&lt;").replace(">", "&gt;").replace("\r", "&#13;")


def _esc_attr(s):
    return (
        s.replace("&", "&amp;")
        .replace("<", "&lt;")
        .replace(">", "&gt;")
        .replace('"', "&quot;")
        .replace("\t", "&#9;")
        .replace("\n", "&#10;")
        .replace("\r", "&#13;")
    )


def _qname(clark, scope, decls, is_attr):
    if clark[:1] != "{":
        return clark
    uri, local = clark[1:].split("}", 1)
    if uri == XML_NS:
        return "xml:" + local
    for pfx, u in scope.items():
        if u == uri and not (is_attr and pfx is None):
            return (pfx + ":" + local) if pfx else local
    n = 0
    while ("ns%d" % n) in scope:
        n += 1
    pfx = "ns%d" % n
    scope[pfx] = uri
    decls.append((pfx, uri))
    return pfx + ":" + local


def _ser(e, scope, out, pretty, level):
    d = e.__dict__
    scope = dict(scope)
    decls = []
    for pfx, uri in d["_px_nsmap"].items():
        if scope.get(pfx) != uri:
            scope[pfx] = uri
            decls.append((pfx, uri))
    name = _qname(d["_px_tag"], scope, decls, False)
    attrs = [(_qname(k, scope, decls, True), v) for k, v in d["_px_attrib"]._d.items()]
    s = "<" + name
    for pfx, uri in decls:
        s += (' xmlns:%s="%s"' % (pfx, _esc_attr(uri))) if pfx else (' xmlns="%s"' % _esc_attr(uri))
    for k, v in attrs:
        s += ' %s="%s"' % (k, _esc_attr(v))
    kids = d["_px_children"]
    text = d["_px_text"]
    if not kids and not text:
        out.append(s + "/>")
    else:
        out.append(s + ">")
        if text:
            out.append(_esc_text(text))
        indent_kids = pretty and not text and all(not c.__dict__["_px_tail"] for c in kids)
        for c in kids:
            if indent_kids:
                out.append("\n" + "  " * (level + 1))
            _ser(c, scope, out, pretty and indent_kids, level + 1)
        if indent_kids and kids:
            out.append("\n" + "  " * level)
        out.append("</" + name + ">")
    tail = d["_px_tail"]
    if tail and level > 0:
        out.append(_esc_text(tail))


def tostring(element, encoding=None, method="xml", xml_declaration=None, pretty_print=False,
             with_tail=True, standalone=None, **kw):
    if isinstance(element, _ElementTree):
        element = element.getroot()
    out = []
    # in-scope namespaces of ancestors are declared on the serialised root, as lxml does
    scope = {}
    root_scope = element.nsmap
    e_d = element.__dict__
    saved = e_d["_px_nsmap"]
    e_d["_px_nsmap"] = root_scope
    try:
        _ser(element, scope, out, pretty_print, 0)
    finally:
        e_d["_px_nsmap"] = saved
    body = "".join(out)
    if pretty_print:
        body += "\n"
    if encoding in (str, "unicode"):
        return body
    enc = encoding or "ASCII"
    decl = ""
    if xml_declaration or (xml_declaration is None and (standalone is not None or enc.upper() not in ("ASCII", "UTF-8", "UTF8", "US-ASCII"))) or (xml_declaration is None and standalone is not None):
        sa = ""
        if standalone is not None:
            sa = " standalone='%s'" % ("yes" if standalone else "no")
        decl = "<?xml version='1.0' encoding='%s'%s?>\n" % (enc, sa)
    if enc.upper() in ("ASCII", "US-ASCII"):
        return (decl + body).encode("ascii", "xmlcharrefreplace")
    return (decl + body).encode(enc)


# ---------------------------------------------------------------------------------------------
# XPath subset
# ---------------------------------------------------------------------------------------------

_TOKEN = _re.compile(
    r"""\s*(?:
      (?P<dslash>//)|(?P<slash>/)|(?P<dotdot>\.\.)|(?P<axis>[a-z\-]+::)|
      (?P<func>text\(\)|node\(\))|
      (?P<num>\d+(?:\.\d+)?)|
      (?P<str>"[^"]*"|'[^']*')|
      (?P<name>[A-Za-z_][\w.\-]*(?::[A-Za-z_*][\w.\-]*)?)|
      (?P<star>\*)|(?P<at>@)|(?P<lb>\[)|(?P<rb>\])|(?P<eq>=)|(?P<dot>\.)
    )""",
    _re.X,
)


def _tokenize(expr):
    pos, out = 0, []
    while pos < len(expr):
        m = _TOKEN.match(expr, pos)
        if not m or m.end() == pos:
            if expr[pos:].strip() == "":
                break
            raise XPathEvalError("pxml xpath: cannot tokenize %r at %d" % (expr, pos))
        out.append((m.lastgroup, m.group(m.lastgroup)))
        pos = m.end()
    return out


class _XP:
    """Parsed location path: (absolute, [(sep, step), ...])."""

    def __init__(self, tokens, nsmap, expr):
        self.t = tokens
        self.i = 0
        self.ns = nsmap
        self.expr = expr

    def peek(self):
        return self.t[self.i] if self.i < len(self.t) else (None, None)

    def take(self, kind=None):
        k, v = self.peek()
        if kind is not None and k != kind:
            raise XPathEvalError("pxml xpath: expected %s in %r" % (kind, self.expr))
        self.i += 1
        return k, v

    def clark(self, name):
        if ":" in name:
            pfx, local = name.split(":", 1)
            if pfx not in self.ns:
                raise XPathEvalError("pxml xpath: undefined prefix %r" % pfx)
            if local == "*":
                return ("ns", self.ns[pfx])
            return "{%s}%s" % (self.ns[pfx], local)
        return name

    def parse_path(self):
        absolute = None
        steps = []
        k, _ = self.peek()
        if k == "slash":
            self.take()
            absolute = "/"
        elif k == "dslash":
            self.take()
            absolute = "//"
        sep = absolute or "/"
        first = True
        while True:
            k, v = self.peek()
            if k in (None, "rb", "eq"):
                break
            steps.append((sep if not (first and absolute is None) else "/", self.parse_step()))
            first = False
            k, v = self.peek()
            if k == "slash":
                self.take()
                sep = "/"
            elif k == "dslash":
                self.take()
                sep = "//"
            else:
                break
        return absolute, steps

    def parse_step(self):
        k, v = self.take()
        if k == "dot":
            step = ("self", None)
        elif k == "dotdot":
            step = ("parent", None)
        elif k == "at":
            k2, v2 = self.take()
            if k2 == "star":
                step = ("attr", "*")
            else:
                step = ("attr", self.clark(v2))
        elif k == "func":
            step = ("text", None) if v == "text()" else ("node", None)
        elif k == "star":
            step = ("child", "*")
        elif k == "name":
            step = ("child", self.clark(v))
        elif k == "axis":
            axis = v[:-2]
            k2, v2 = self.take()
            test = "*" if k2 == "star" else self.clark(v2)
            if axis not in ("ancestor", "child", "descendant", "self", "parent", "following-sibling", "preceding-sibling", "descendant-or-self", "ancestor-or-self"):
                raise XPathEvalError("pxml xpath: axis %r unsupported" % axis)
            step = (axis, test)
        else:
            raise XPathEvalError("pxml xpath: unexpected token %r in %r" % (v, self.expr))
        preds = []
        while self.peek()[0] == "lb":
            self.take()
            preds.append(self.parse_pred())
            self.take("rb")
        return step + (preds,)

    def parse_pred(self):
        k, v = self.peek()
        if k == "num":
            self.take()
            return ("pos", int(v))
        path = self.parse_path()
        if self.peek()[0] == "eq":
            self.take()
            k2, v2 = self.take()
            if k2 == "str":
                return ("eqstr", path, v2[1:-1])
            if k2 == "num":
                return ("eqnum", path, float(v2))
            raise XPathEvalError("pxml xpath: bad comparison in %r" % self.expr)
        return ("exists", path)


_xp_cache = {}


def _split_union(expr):
    """'(A | B | C)/rest' -> (['A', 'B', 'C'], '/rest'); None when `expr` is not a parenthesised union of paths."""
    e = expr.strip()
    if not e.startswith("("):
        return None
    depth, quote, close = 0, None, -1
    parts, start = [], 1
    for i, ch in enumerate(e):
        if quote:
            if ch == quote:
                quote = None
            continue
        if ch in "\"'":
            quote = ch
        elif ch in "([":
            depth += 1
        elif ch in ")]":
            depth -= 1
            if depth == 0 and ch == ")":
                close = i
                break
        elif ch == "|" and depth == 1:
            parts.append(e[start:i].strip())
            start = i + 1
    if close < 0:
        return None
    parts.append(e[start:close].strip())
    rest = e[close + 1:]
    if len(parts) < 2 or (rest and not rest.startswith("/")):
        return None
    return parts, rest


def _xpath_eval(ctx, expr, namespaces):
    union = _split_union(expr) if isinstance(expr, str) and expr.lstrip().startswith("(") else None
    if union is not None:
        # a node-set union: results of the alternatives merged in document order without duplicates
        found = []
        for alt in union[0]:
            for n in _xpath_eval(ctx, alt + union[1], namespaces):
                if not any(n is m for m in found):
                    found.append(n)
        if all(isinstance(n, _Element) for n in found) and found:
            root = found[0]
            while root.getparent() is not None:
                root = root.getparent()
            order = {id(n): k for k, n in enumerate(root.iter())}
            found.sort(key=lambda n: order.get(id(n), 0))
        return found
    key = (expr, tuple(sorted((k or "", v) for k, v in namespaces.items())))
    parsed = _xp_cache.get(key)
    if parsed is None:
        p = _XP(_tokenize(expr), namespaces, expr)
        parsed = p.parse_path()
        if p.i != len(p.t):
            raise XPathEvalError("pxml xpath: trailing tokens in %r" % expr)
        _xp_cache[key] = parsed
    return _eval_path(ctx, parsed)


class _Doc:
    """Document node: parent of the root element (for absolute paths)."""

    def __init__(self, root):
        self.root = root


def _match(e, test):
    if test is None or test == "*":
        return True
    if isinstance(test, tuple):
        return e.tag.startswith("{%s}" % test[1])
    return e.tag == test


def _descendants_or_self(n):
    if isinstance(n, _Doc):
        yield n
        yield from n.root.iter()
    else:
        yield from n.iter()


def _axis_nodes(n, axis, test):
    if axis == "child":
        if isinstance(n, _Doc):
            return [n.root] if _match(n.root, test) else []
        return [c for c in n.__dict__["_px_children"] if _match(c, test)]
    if isinstance(n, _Doc):
        if axis in ("self", "descendant-or-self", "descendant"):
            if axis == "self":
                return []
            return [e for e in n.root.iter() if _match(e, test)]
        return []
    if axis == "self":
        return [n] if _match(n, test) else []
    if axis == "parent":
        p = n.getparent()
        return [p] if p is not None and _match(p, test) else []
    if axis == "ancestor":
        out = [a for a in n.iterancestors() if _match(a, test)]
        out.reverse()  # document order
        return out
    if axis == "ancestor-or-self":
        out = [a for a in n.iterancestors() if _match(a, test)]
        out.reverse()
        return out + ([n] if _match(n, test) else [])
    if axis == "descendant":
        return [e for e in n.iterdescendants() if _match(e, test)]
    if axis == "descendant-or-self":
        return [e for e in n.iter() if _match(e, test)]
    if axis == "following-sibling":
        return [e for e in n.itersiblings() if _match(e, test)]
    if axis == "preceding-sibling":
        out = [e for e in n.itersiblings(preceding=True) if _match(e, test)]
        out.reverse()
        return out
    raise XPathEvalError("axis " + axis)


def _num(v):
    try:
        return int(v)
    except (TypeError, ValueError):
        try:
            return float(v)
        except (TypeError, ValueError):
            return None


def _apply_preds(nodes, preds):
    for pr in preds:
        if pr[0] == "pos":
            k = pr[1]
            nodes = [nodes[k - 1]] if 1 <= k <= len(nodes) else []
        elif pr[0] == "exists":
            nodes = [n for n in nodes if _eval_path(n, pr[1])]
        elif pr[0] == "eqstr":
            keep = []
            for n in nodes:
                vals = _eval_path(n, pr[1])
                if any(_strval(v) == pr[2] for v in vals):
                    keep.append(n)
            nodes = keep
        elif pr[0] == "eqnum":
            keep = []
            for n in nodes:
                vals = _eval_path(n, pr[1])
                if any(_num(_strval(v)) == pr[2] for v in vals):
                    keep.append(n)
            nodes = keep
    return nodes


def _strval(v):
    if isinstance(v, _Element):
        return "".join(_itertext(v))
    return v


def _itertext(e):
    d = e.__dict__
    if d["_px_text"]:
        yield d["_px_text"]
    for c in d["_px_children"]:
        yield from _itertext(c)
        if c.__dict__["_px_tail"]:
            yield c.__dict__["_px_tail"]


def _eval_path(ctx, parsed):
    absolute, steps = parsed
    if absolute is not None:
        root = ctx._px_root() if isinstance(ctx, _Element) else ctx.root
        nodes = [_Doc(root)]
    else:
        nodes = [ctx]
    for sep, (axis, test, preds) in steps:
        if sep == "//":
            expanded, seen = [], set()
            for n in nodes:
                for d in _descendants_or_self(n):
                    if id(d) not in seen:
                        seen.add(id(d))
                        expanded.append(d)
            nodes = expanded
        out, seen = [], set()
        for n in nodes:
            if axis == "attr":
                if isinstance(n, _Doc) or not isinstance(n, _Element):
                    continue
                if test == "*":
                    res = n.attrib.values()
                else:
                    v = n.get(test)
                    res = [] if v is None else [v]
                res = _apply_preds(res, preds)
                out.extend(res)
                continue
            if axis == "text":
                if isinstance(n, _Doc):
                    continue
                res = []
                if n.__dict__["_px_text"]:
                    res.append(n.__dict__["_px_text"])
                for c in n.__dict__["_px_children"]:
                    if c.__dict__["_px_tail"]:
                        res.append(c.__dict__["_px_tail"])
                out.extend(_apply_preds(res, preds))
                continue
            if axis == "node":
                raise XPathEvalError("pxml xpath: node() step unsupported")
            res = _apply_preds(_axis_nodes(n, axis, test), preds)
            for r in res:
                if id(r) not in seen:
                    seen.add(id(r))
                    out.append(r)
        nodes = out
    if len(nodes) > 1 and sum(1 for s, _ in steps if s == "//") and all(isinstance(n, _Element) for n in nodes):
        # restore document order after a // expansion merged several contexts
        order = {id(e): i for i, e in enumerate(nodes[0]._px_root().iter())}
        nodes.sort(key=lambda e: order.get(id(e), 0))
    return nodes
