"""Read python-pptx's declarative element model out of the *live* classes (stub mode).

register_element_cls() fills pxml's ElementNamespaceClassLookup; the xmlchemy descriptors replace
themselves by properties/methods whose closures still reference the descriptor object, which is where
tag names, successor tuples and simple types are read from.
"""


def registered_classes():
    """[(Clark tag, element class)] for every register_element_cls() call."""
    import pptx.oxml  # noqa: F401
    import pptx.opc.oxml  # noqa: F401
    from pptx.oxml import element_class_lookup

    out = []
    for uri, reg in element_class_lookup._ns.items():
        for local, ecls in reg.items():
            out.append(("{%s}%s" % (uri, local), ecls))
    return sorted(out, key=lambda x: x[0])


def _closure_objs(fn):
    for cell in getattr(fn, "__closure__", None) or ():
        try:
            yield cell.cell_contents
        except ValueError:
            pass


def attributes_of(ecls):
    """{prop_name: BaseAttribute descriptor} declared on element class `ecls` (incl. inherited)."""
    from pptx.oxml.xmlchemy import BaseAttribute

    out = {}
    for k in reversed(ecls.__mro__):
        for name, v in vars(k).items():
            if isinstance(v, property) and v.fget is not None:
                for o in _closure_objs(v.fget):
                    if isinstance(o, BaseAttribute):
                        out[name] = o
    return out


def children_of(ecls):
    """Unique child-element descriptors (_BaseChildElement incl. Choice, and ZeroOrOneChoice) reachable from the
    generated properties/methods of element class `ecls` (incl. inherited), in a stable order."""
    from pptx.oxml.xmlchemy import ZeroOrOneChoice, _BaseChildElement

    seen, out = set(), []
    for k in reversed(ecls.__mro__):
        for name, v in sorted(vars(k).items()):
            fns = []
            if isinstance(v, property) and v.fget is not None:
                fns.append(v.fget)
            elif callable(v) and hasattr(v, "__closure__"):
                fns.append(v)
            for fn in fns:
                for o in _closure_objs(fn):
                    if isinstance(o, (_BaseChildElement, ZeroOrOneChoice)) and id(o) not in seen:
                        seen.add(id(o))
                        out.append(o)
    return out


def attribute_usage():
    """simple-type class -> [(element Clark tag, attribute name as it appears in elm.attrib)]."""
    out = {}
    for clark, ecls in registered_classes():
        for name, d in attributes_of(ecls).items():
            out.setdefault(d._simple_type, []).append((clark, d._clark_name))
    return out
