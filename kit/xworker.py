"""One condition per process: run CrossHair (or an Engine-S obligation) and print one JSON line.

usage: python -m kit.xworker <harness module> <condition name> <timeout s>
       python -m kit.xworker --list <harness module>
"""
import importlib
import json
import os
import sys
import time
import traceback


def _list(modname):
    from kit import env

    mod = importlib.import_module(modname)
    out = []
    for fn, meta in env.registry(mod.__name__):
        m = dict(meta)
        m["line"] = fn.__code__.co_firstlineno
        m["doc"] = (fn.__doc__ or "").strip()
        out.append(m)
    print("XRESULT " + json.dumps(out))


def _run_x(fn, timeout):
    import collections

    from crosshair import core
    from crosshair.core_and_libs import analyze_function, run_checkables
    from crosshair.options import AnalysisOptionSet
    from crosshair.statespace import MessageType

    captured = {}
    orig = core.make_counterexample_message

    def capture(conditions, args, return_val=None):
        from crosshair.tracers import NoTracing

        msg = orig(conditions, args, return_val)
        try:
            with NoTracing():
                reprer = core.context_statespace().extra(core.LazyCreationRepr)
                real = reprer.deep_realize(args)
                captured["args"] = {k: repr(v) for k, v in real.arguments.items()}
        except Exception as exc:  # fall back to message parsing in the runner
            captured["capture_error"] = repr(exc)
        return msg

    core.make_counterexample_message = capture
    stats = collections.Counter()
    opts = AnalysisOptionSet(
        per_condition_timeout=float(timeout),
        report_all=True,
        stats=stats,
        max_uninteresting_iterations=sys.maxsize,
    )
    t0 = time.time()
    c0 = time.process_time()
    checkables = analyze_function(fn, opts)
    if not checkables:
        return dict(status="error", message="no conditions found on function")
    msgs = run_checkables(checkables)
    res = dict(cpu_s=round(time.process_time() - c0, 3), wall_s=round(time.time() - t0, 3),
               paths=int(stats.get("num_paths", 0)), messages=[(m.state.name, m.message) for m in msgs])
    states = [m.state for m in msgs]
    if any(s == MessageType.POST_FAIL or s == MessageType.POST_ERR or s == MessageType.EXEC_ERR for s in states):
        bad = [m for m in msgs if m.state in (MessageType.POST_FAIL, MessageType.POST_ERR, MessageType.EXEC_ERR)][0]
        res.update(status="refuted", message=bad.message, args=captured.get("args"),
                   capture_error=captured.get("capture_error"), traceback=(bad.traceback or "")[-3000:],
                   state=bad.state.name)
    elif any(s == MessageType.SYNTAX_ERR or s == MessageType.IMPORT_ERR for s in states):
        res.update(status="error", message="; ".join(m.message for m in msgs))
    elif any(s == MessageType.PRE_UNSAT for s in states):
        res.update(status="pre_unsat", message="; ".join(m.message for m in msgs))
    elif states and all(s == MessageType.CONFIRMED for s in states):
        res.update(status="confirmed", message="Confirmed over all paths.")
    else:
        res.update(status="unknown", message="; ".join(m.message for m in msgs) or "no verdict")
    return res


def main(argv):
    if argv[0] == "--list":
        _list(argv[1])
        return 0
    modname, cname, timeout = argv[0], argv[1], float(argv[2])
    from kit import env

    try:
        mod = importlib.import_module(modname)
        reg = {meta["name"]: (fn, meta) for fn, meta in env.registry(mod.__name__)}
        fn, meta = reg[cname]
        if meta["kind"] == "x":
            res = _run_x(fn, timeout)
        else:
            t0 = time.time()
            res = fn()
            res.setdefault("wall_s", round(time.time() - t0, 3))
    except BaseException as exc:  # noqa: a worker must always report
        res = dict(status="error", message="%s: %s" % (type(exc).__name__, exc),
                   traceback=traceback.format_exc()[-4000:])
    res["name"] = cname
    sys.stdout.flush()
    print("XRESULT " + json.dumps(res, default=repr))
    return 0


if __name__ == "__main__":
    sys.exit(main(sys.argv[1:]))
