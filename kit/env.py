"""Harness environment: symbolic mode (pxml stub + CrossHair patches) or real mode (replay).

Every harness module starts with `from kit.env import *; setup()` *before* importing pptx.
VERIF_REAL=1  -> nothing is stubbed: real lxml, no CrossHair patches (used by replays).
VERIF_TIER    -> "quick" | "thorough": harness modules derive their bounds from it.
"""
import json
import os
import sys

REAL = os.environ.get("VERIF_REAL") == "1"
TIER = os.environ.get("VERIF_TIER", "quick")
THOROUGH = TIER == "thorough"
KIT_DIR = os.path.dirname(os.path.abspath(__file__))
VERIF_DIR = os.path.dirname(KIT_DIR)
REPO = os.environ.get("VERIF_REPO", "/repo")

_REGISTRY = []  # (fn, meta) in definition order


def setup(length_stub=True, stub_lxml=True):
    if REAL:
        return
    if stub_lxml:
        p = os.path.join(KIT_DIR, "pxml")
        if p not in sys.path:
            sys.path.insert(0, p)
        import lxml.etree

        assert getattr(lxml.etree, "__stub__", None) == "pxml", lxml.etree.__file__
    from kit import chkit

    chkit.install()
    if length_stub:
        chkit.install_length_stub()
    chkit.install_packuri_stub()
    if stub_lxml:
        chkit.install_parse_hook()
        if os.environ.get("VERIF_SLOW_PXML") != "1":
            chkit.install_fast_pxml()


def cond(expect="confirm", tiers=("quick", "thorough"), timeout=60, twin_of=None, note="",
         encodes=(), bound=""):
    """Register a CrossHair condition.

    expect  : "confirm" (must be Confirmed over all paths) or "refute" (reachability twin /
              self-test that must come back with a counterexample).
    timeout : per-condition CPU budget in seconds (thorough tier may scale it).
    encodes : qualified names of the real functions the body executes (for evidence).
    bound   : human-readable statement of the bound for evidence.
    """

    def deco(fn):
        _REGISTRY.append(
            (fn, dict(name=fn.__name__, kind="x", expect=expect, tiers=list(tiers), timeout=timeout,
                      twin_of=twin_of, note=note, encodes=list(encodes), bound=bound))
        )
        return fn

    return deco


def smt(tiers=("quick", "thorough"), timeout=120, note="", encodes=(), bound=""):
    """Register an Engine-S obligation: a function returning a dict
    {status: holds|violated|unknown, queries: n, solver_s: t, counterexample: {...}|None,
     replay: {fn: name, args: {...}}|None, samples: [...], detail: ...}."""

    def deco(fn):
        _REGISTRY.append(
            (fn, dict(name=fn.__name__, kind="smt", expect="holds", tiers=list(tiers), timeout=timeout,
                      twin_of=None, note=note, encodes=list(encodes), bound=bound))
        )
        return fn

    return deco


def registry(module_name):
    return [(fn, meta) for fn, meta in _REGISTRY if fn.__module__ == module_name]


# -- known-finding exclusion regions (search only; see DESIGN.md section 5) ------------------
_EXCL = None


def excluded(cond_name, **args):
    """True when `args` lie in a region listed for `cond_name` in known_findings.json.
    Used in `pre:` lines so that the search continues past a listed finding."""
    global _EXCL
    if _EXCL is None:
        _EXCL = {}
        path = os.path.join(VERIF_DIR, "known_findings.json")
        if os.path.exists(path):
            with open(path) as f:
                for e in json.load(f).get("findings", []):
                    if e.get("status", "known") == "known" and e.get("region"):
                        _EXCL.setdefault(e["condition"], []).append(
                            compile(e["region"], "<known-finding %s>" % e.get("id", ""), "eval")
                        )
    for code in _EXCL.get(cond_name, ()):
        if eval(code, {}, dict(args)):
            return True
    return False


def gen(src, glb, tag="gen"):
    """Define harness functions from generated source so that inspect/linecache can see them."""
    import linecache

    filename = "<%s %s %d>" % (glb.get("__name__", "harness"), tag, len(linecache.cache))
    linecache.cache[filename] = (len(src), None, src.splitlines(True), filename)
    exec(compile(src, filename, "exec"), glb)


def untraced_call(fn, *a, **k):
    """Call `fn` with CrossHair tracing off (symbolic mode) or plainly (real mode). Only for code that merely selects or
    constructs objects from concrete arguments (e.g. a class-dispatch table); never for code under test."""
    if REAL:
        return fn(*a, **k)
    from crosshair.core import CrossHairValue, deep_realize
    from crosshair.tracers import NoTracing

    with NoTracing():
        a = tuple(deep_realize(x) if isinstance(x, CrossHairValue) else x for x in a)
        k = {n: (deep_realize(x) if isinstance(x, CrossHairValue) else x) for n, x in k.items()}
        return fn(*a, **k)


def detail(mod_globals, fmt, *args):
    """Record a human-readable explanation of a failed postcondition -- in replay (real) mode only: formatting
    containers under CrossHair calls repr(), which CrossHair may short-circuit into a symbolic string
    ('proxy intolerance'), turning a refutable path into an UNKNOWN one."""
    if REAL:
        mod_globals["LAST_DETAIL"] = fmt % args


def choose(seq, i):
    """seq[i] for a symbolic index, forking once per feasible index so that the result is concrete on each path
    (CrossHair turns `list_of_numbers[symbolic]` into one symbolic value instead)."""
    for k, v in enumerate(seq):
        if i == k:
            return v
    raise IndexError(i)
