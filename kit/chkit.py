"""chkit -- CrossHair (0.0.110) patches that keep symbolic values alive in python-pptx code.

Every item here is an environment stub in the sense of DESIGN.md section 4.2; each has a
contract stated in its docstring and a self-test in kit/selftest.py.  Nothing is active unless
`install()` is called (kit.env does so in symbolic mode only; replays run without any of this).
"""

from __future__ import annotations

import ast
import inspect
import re
import sys

import crosshair.core_and_libs  # noqa: F401  (runs the library registrations first)
from crosshair import core
from crosshair.core import deep_realize, realize
from crosshair.libimpl import builtinslib as bl
from crosshair.tracers import NoTracing, ResumedTracing

_DIGITS = set("-0123456789")
_installed = False


def is_sym(x) -> bool:
    """True when `x` is a CrossHair symbolic value. Safe to call with tracing on or off."""
    with NoTracing():
        return isinstance(x, core.CrossHairValue)


# ---------------------------------------------------------------------------------------------
# DecStr: contract int(str(n)) == n ; str(n) consists of '-' and digits only
# ---------------------------------------------------------------------------------------------


class DecStr(bl.LazyIntSymbolicStr):
    """str(symbolic int): remembers the int; expands to code points only on demand."""

    def __init__(self, symint):
        self.__dict__["_ch_int"] = symint
        self.__dict__["_cp"] = None

    @property
    def _codepoints(self):
        cp = self.__dict__["_cp"]
        if cp is None:
            with ResumedTracing():
                s = _orig_int_repr(self.__dict__["_ch_int"])
            with NoTracing():
                cp = s._codepoints
                self.__dict__["_cp"] = cp
        return cp

    @_codepoints.setter
    def _codepoints(self, v):
        self.__dict__["_cp"] = v

    def __eq__(self, other):
        with NoTracing():
            if isinstance(other, DecStr):
                a, b = self.__dict__["_ch_int"], other.__dict__["_ch_int"]
                with ResumedTracing():
                    return a == b
        return bl.LazyIntSymbolicStr.__eq__(self, other)

    def __ne__(self, other):
        return not self.__eq__(other)

    def __hash__(self):
        return bl.LazyIntSymbolicStr.__hash__(self)

    def __contains__(self, other):
        with NoTracing():
            if isinstance(other, str) and other and any(c not in _DIGITS for c in other):
                return False
        return bl.LazyIntSymbolicStr.__contains__(self, other)

    def endswith(self, suffix, *a):
        with NoTracing():
            if isinstance(suffix, str) and suffix and any(c not in _DIGITS for c in suffix):
                return False
        return bl.LazyIntSymbolicStr.endswith(self, suffix, *a)

    def startswith(self, prefix, *a):
        with NoTracing():
            if isinstance(prefix, str) and prefix and any(c not in _DIGITS for c in prefix):
                return False
        return bl.LazyIntSymbolicStr.startswith(self, prefix, *a)

    def isdigit(self):
        i = self.__dict__["_ch_int"]
        return i >= 0


_orig_int_repr = None


def _install_decstr():
    global _orig_int_repr
    _orig_int_repr = bl.SymbolicInt.__repr__

    def _dec_repr(self):
        with NoTracing():
            return DecStr(self)

    bl.SymbolicInt.__repr__ = _dec_repr
    bl.SymbolicInt.__str__ = _dec_repr

    # int(DecStr) fast path: re-exec builtinslib._int with two injected lines and swap __code__
    src = inspect.getsource(bl._int)
    head, body = src.split("with NoTracing():", 1)
    inject = (
        "with NoTracing():\n"
        "        if isinstance(val, _DecStr) and base is _MISSING:\n"
        "            return val.__dict__['_ch_int']\n"
        "        if isinstance(val, SymbolicFloat) and base is _MISSING and hasattr(type(val), '__int__'):\n"
        "            with ResumedTracing():\n"
        "                return val.__int__()"
    )
    src2 = head.replace("def _int(", "def _int_patched(") + inject + body
    bl.__dict__["_DecStr"] = DecStr
    exec(src2, bl.__dict__)
    bl._int.__code__ = bl.__dict__["_int_patched"].__code__

    orig_contains = core._PATCH_REGISTRATIONS.get(str.__contains__)
    if orig_contains is not None:

        def _contains(self, other):
            with NoTracing():
                dec = isinstance(self, DecStr)
            if dec:
                return self.__contains__(other)
            return orig_contains(self, other)

        core._PATCH_REGISTRATIONS[str.__contains__] = _contains


# ---------------------------------------------------------------------------------------------
# SymLength: contract Length(n) behaves as int n with Length's own unit properties
# ---------------------------------------------------------------------------------------------


_INT_NEW_HANDLERS = {}  # class -> factory(symbolic int) for int subclasses
_STR_NEW_HANDLERS = {}  # class -> factory(symbolic str) for str subclasses


def _install_new_patches():
    """`int.__new__(cls, sym)` / `str.__new__(cls, sym)` for registered pptx subclasses return a
    symbolic stand-in carrying the subclass's own properties, so that the *real* `__new__`
    bodies (e.g. PackURI's leading-slash check) still execute under tracing.

    CrossHair normalises an explicit `str.__new__(...)` call to the key `type.__new__` with
    binding target `str` (tracers.normalize_call_target), so the patch is registered there and
    dispatches on the binding target."""

    def _type_new(bound, *a, **k):
        with NoTracing():
            h = None
            if len(a) == 2 and not k and isinstance(a[0], type):
                cls, val = a
                if bound is int and isinstance(val, bl.SymbolicInt):
                    table = _INT_NEW_HANDLERS
                elif bound is str and isinstance(val, bl.AnySymbolicStr):
                    table = _STR_NEW_HANDLERS
                else:
                    table = None
                if table:
                    for c, f in table.items():
                        if issubclass(cls, c):
                            h = f
                            break
                if h is not None:
                    return h(val)
            return bound.__new__(*a, **k)

    core.register_patch(type.__new__, _type_new)


def install_length_stub():
    """Contract: Length(n) (Emu, Pt, ...) behaves as the int n with Length's own unit properties.
    isinstance(v, Length) is False for the stand-in (stated in DESIGN.md 4.2)."""
    import pptx.util as u

    if getattr(u, "SymLength", None) is not None:
        return
    ns = {
        k: v
        for k, v in vars(u.Length).items()
        if isinstance(v, property) or k.startswith("_EMUS")
    }
    SymLength = type("SymLength", (bl.SymbolicInt,), ns)
    u.SymLength = SymLength
    _INT_NEW_HANDLERS[u.Length] = lambda sym: SymLength(sym.var)


def install_packuri_stub():
    """Contract: PackURI(s) behaves as the str s with PackURI's own properties and methods."""
    import pptx.opc.packuri as pu

    if getattr(pu, "SymPackURI", None) is not None:
        return
    ns = {
        k: v
        for k, v in vars(pu.PackURI).items()
        if k not in ("__new__", "__dict__", "__weakref__", "__doc__", "__module__")
    }
    SymPackURI = type("SymPackURI", (bl.LazyIntSymbolicStr,), ns)
    pu.SymPackURI = SymPackURI

    def mk(sym):
        if isinstance(sym, DecStr):
            return SymPackURI(sym._codepoints)
        return SymPackURI(sym._codepoints)

    _STR_NEW_HANDLERS[pu.PackURI] = mk


# ---------------------------------------------------------------------------------------------
# symbolic %-formatting; messages built inside `raise` become a placeholder
# ---------------------------------------------------------------------------------------------

_SPEC = re.compile(r"%(?:\((\w+)\))?([#0\- +]*)(\d+|\*)?(?:\.(\d+))?([sdrifgxXceEGo%])")
_RAISE_SPANS: dict = {}
PLACEHOLDER = "<message with symbolic value>"


def _in_raise(filename, lineno):
    spans = _RAISE_SPANS.get(filename)
    if spans is None:
        try:
            with open(filename) as f:
                tree = ast.parse(f.read())
            spans = [(n.lineno, n.end_lineno) for n in ast.walk(tree) if isinstance(n, ast.Raise)]
        except Exception:
            spans = []
        _RAISE_SPANS[filename] = spans
    return any(a <= lineno <= b for a, b in spans)


def _caller_frame():
    fr = sys._getframe(2)
    while fr is not None and (
        "crosshair" in fr.f_code.co_filename or fr.f_code.co_filename == __file__
    ):
        fr = fr.f_back
    return fr


def _sym_percent(self, other):
    with NoTracing():
        tmpl = self if type(self) is str else realize(self)
        if isinstance(other, dict):
            anysym = any(isinstance(v, core.CrossHairValue) for v in other.values())
        else:
            args = other if isinstance(other, tuple) else (other,)
            anysym = any(isinstance(a, core.CrossHairValue) for a in args)
        if not anysym:
            return tmpl.__mod__(other)
        fr = _caller_frame()
        if fr is not None and _in_raise(fr.f_code.co_filename, fr.f_lineno):
            return PLACEHOLDER
        pieces = []
        pos = 0
        argi = 0
        for m in _SPEC.finditer(tmpl):
            pieces.append(tmpl[pos : m.start()])
            pos = m.end()
            key, flags, width, prec, conv = m.groups()
            if conv == "%":
                pieces.append("%")
                continue
            if key is not None:
                val = other[key]
            else:
                val = args[argi]
                argi += 1
            if (
                isinstance(val, core.CrossHairValue)
                and conv in "sd"
                and not flags
                and width is None
                and prec is None
            ):
                pieces.append(("SYM", val))
            else:
                spec = "%" + (flags or "") + (width or "") + ("." + prec if prec else "") + conv
                pieces.append(spec % (deep_realize(val),))
        pieces.append(tmpl[pos:])
    rendered = []
    for p in pieces:
        if isinstance(p, tuple):
            rendered.append(str(p[1]))
        else:
            rendered.append(p)
    with NoTracing():
        return make_template(rendered)


def _install_percent():
    if str.__mod__ in core._PATCH_REGISTRATIONS:
        core._PATCH_REGISTRATIONS[str.__mod__] = _sym_percent

    # f-strings / repr() / format() / str.format of a symbolic value while building an exception
    # message: placeholder instead of realization (message texts are outside every claim).
    orig_repr = core._PATCH_REGISTRATIONS.get(repr)
    orig_format = core._PATCH_REGISTRATIONS.get(format)
    orig_str_format = core._PATCH_REGISTRATIONS.get(str.format)

    def _repr(obj):
        with NoTracing():
            if isinstance(obj, core.CrossHairValue):
                fr = _caller_frame()
                if fr is not None and _in_raise(fr.f_code.co_filename, fr.f_lineno):
                    return PLACEHOLDER
        # builtinslib._repr carries a `post[]: True` contract, which lets CrossHair short-circuit the call and
        # return a symbolic str for repr() of a concrete object ("proxy intolerance" -> UNKNOWN path); call the
        # dunder directly instead
        return bl.invoke_dunder(obj, "__repr__")

    def _format(obj, format_spec=""):
        with NoTracing():
            sym = isinstance(obj, core.CrossHairValue)
            if sym:
                fr = _caller_frame()
                if fr is not None and _in_raise(fr.f_code.co_filename, fr.f_lineno):
                    return PLACEHOLDER
            plain_int = sym and isinstance(obj, bl.SymbolicInt) and format_spec in ("", "d")
        if plain_int:
            return str(obj)
        return orig_format(obj, format_spec)

    import string as _string

    def _str_format(self, *a, **k):
        with NoTracing():
            if any(isinstance(x, core.CrossHairValue) for x in a) or any(
                isinstance(x, core.CrossHairValue) for x in k.values()
            ):
                fr = _caller_frame()
                if fr is not None and _in_raise(fr.f_code.co_filename, fr.f_lineno):
                    return PLACEHOLDER
                # keep the pieces when every replacement field is a plain {name} / {0} / {} without conversion or spec
                tmpl = self if type(self) is str else realize(self)
                pieces, auto, ok = [], 0, True
                for lit, field, spec, conv in _string.Formatter().parse(tmpl):
                    if lit:
                        pieces.append(lit)
                    if field is None:
                        continue
                    if spec or conv or "." in field or "[" in field:
                        ok = False
                        break
                    if field == "":
                        val = a[auto]
                        auto += 1
                    elif field.isdigit():
                        val = a[int(field)]
                    else:
                        val = k[field]
                    if isinstance(val, bl.AnySymbolicStr):
                        pieces.append(val)
                    elif isinstance(val, bl.SymbolicInt):
                        pieces.append(DecStr(val))
                    elif isinstance(val, core.CrossHairValue):
                        ok = False
                        break
                    else:
                        pieces.append(format(val, ""))
                if ok:
                    return make_template(pieces)
        return orig_str_format(self, *a, **k)

    if orig_repr is not None:
        core._PATCH_REGISTRATIONS[repr] = _repr
    if orig_format is not None:
        core._PATCH_REGISTRATIONS[format] = _format
    if orig_str_format is not None:
        core._PATCH_REGISTRATIONS[str.format] = _str_format


# ---------------------------------------------------------------------------------------------
# traced getattr / setattr for pptx / lxml(stub) objects
# ---------------------------------------------------------------------------------------------

_MISSING = object()
_TRACED_MODULE_PREFIXES = ("pptx", "lxml", "harness", "kit")


def _install_attr_tracing():
    orig_setattr = core._PATCH_REGISTRATIONS.get(setattr)
    orig_getattr = core._PATCH_REGISTRATIONS.get(getattr)

    def _plain(obj):
        if isinstance(obj, super):
            # getattr(super(Cls, self), name): the property found through the MRO must run traced as well
            return getattr(obj, "__thisclass__", type(None)).__module__.startswith(_TRACED_MODULE_PREFIXES)
        return not isinstance(obj, (core.CrossHairValue, type)) and type(
            obj
        ).__module__.startswith(_TRACED_MODULE_PREFIXES)

    def _setattr(obj, name, value):
        with NoTracing():
            plain = _plain(obj)
        if not plain:
            return orig_setattr(obj, name, value)
        with NoTracing():
            if isinstance(name, bl.AnySymbolicStr):
                name = realize(name)
            setter = type(obj).__setattr__
        return setter(obj, name, value)

    def _getattr(obj, name, default=_MISSING):
        with NoTracing():
            plain = _plain(obj)
        if not plain:
            if default is _MISSING:
                return orig_getattr(obj, name)
            return orig_getattr(obj, name, default)
        with NoTracing():
            if isinstance(name, bl.AnySymbolicStr):
                name = realize(name)
            getter = type(obj).__getattribute__
            fallback = getattr(type(obj), "__getattr__", None)
        try:
            return getter(obj, name)
        except AttributeError:
            if fallback is not None:
                try:
                    return fallback(obj, name)
                except AttributeError:
                    if default is _MISSING:
                        raise
                    return default
            if default is _MISSING:
                raise
            return default

    if orig_setattr is not None:
        core._PATCH_REGISTRATIONS[setattr] = _setattr
    if orig_getattr is not None:
        core._PATCH_REGISTRATIONS[getattr] = _getattr


# ---------------------------------------------------------------------------------------------
# posixpath.normpath: CPython's own pure-Python fallback body
# ---------------------------------------------------------------------------------------------


def _normpath(path):
    import os

    path = os.fspath(path) if type(path) in (str, bytes) else path
    sep = "/"
    empty = ""
    dot = "."
    dotdot = ".."
    if path == empty:
        return dot
    initial_slashes = path.startswith(sep)
    if initial_slashes and path.startswith(sep * 2) and not path.startswith(sep * 3):
        initial_slashes = 2
    comps = path.split(sep)
    new_comps = []
    for comp in comps:
        if comp in (empty, dot):
            continue
        if (
            comp != dotdot
            or (not initial_slashes and not new_comps)
            or (new_comps and new_comps[-1] == dotdot)
        ):
            new_comps.append(comp)
        elif new_comps:
            new_comps.pop()
    comps = new_comps
    path = sep.join(comps)
    if initial_slashes:
        path = sep * initial_slashes + path
    return path or dot


def install_normpath():
    import posixpath

    posixpath.normpath = _normpath


# ---------------------------------------------------------------------------------------------


def install():
    global _installed
    if _installed:
        return
    _installed = True
    _install_decstr()
    _install_percent()
    _install_attr_tracing()
    _install_new_patches()
    install_normpath()


# ---------------------------------------------------------------------------------------------
# SymTemplate + skeleton parse: XML templates into which symbolic values were formatted
# ---------------------------------------------------------------------------------------------


class SymTemplate(bl.LazyIntSymbolicStr):
    """Result of `%`-formatting or an f-string with symbolic arguments: remembers its pieces
    (literal str / symbolic value) so that pxml can parse the literal skeleton concretely and
    put the symbolic values back into the tree.  Any other string operation expands it to code
    points like an ordinary symbolic string."""

    def __init__(self, pieces):
        self.__dict__["_pieces"] = pieces
        self.__dict__["_cp"] = None

    @property
    def _codepoints(self):
        cp = self.__dict__["_cp"]
        if cp is None:
            with ResumedTracing():
                acc = ""
                for p in self.__dict__["_pieces"]:
                    acc = acc + p
            with NoTracing():
                cp = list(map(ord, acc)) if type(acc) is str else acc._codepoints
                self.__dict__["_cp"] = cp
        return cp

    @_codepoints.setter
    def _codepoints(self, v):
        self.__dict__["_cp"] = v


def make_template(pieces):
    """pieces: list of str / symbolic str (already rendered). Merges adjacent literals."""
    out = []
    for p in pieces:
        if type(p) is str:
            if p == "":
                continue
            if out and type(out[-1]) is str:
                out[-1] = out[-1] + p
                continue
        elif isinstance(p, SymTemplate):
            for q in p.__dict__["_pieces"]:
                if type(q) is str and out and type(out[-1]) is str:
                    out[-1] = out[-1] + q
                else:
                    out.append(q)
            continue
        out.append(p)
    if all(type(p) is str for p in out):
        return "".join(out)
    return SymTemplate(out)


_TOK_OPEN, _TOK_CLOSE = "\ue000", "\ue001"
_TOK_RE = re.compile("\ue000(\\d+)\ue001")
parse_stats = {"skeleton": 0, "fallback_realized": 0}


def _subst(value, holes):
    """Replace tokens in a parsed attribute value / text by the symbolic pieces."""
    parts = _TOK_RE.split(value)  # [lit, idx, lit, idx, ..., lit]
    if len(parts) == 3 and parts[0] == "" and parts[2] == "":
        return holes[int(parts[1])]
    with ResumedTracing():
        acc = ""
        for i, p in enumerate(parts):
            acc = acc + (holes[int(p)] if i % 2 else p)
    return acc


def _hole_is_plain(hole, ctx_bad):
    """Traced scan: True when the symbolic run contains no character that the XML parser would
    treat specially in its context (markup, delimiter, or white space subject to normalisation)."""
    with ResumedTracing():
        for ch in hole:
            if ch in ctx_bad:
                return False
        if "]]>" in hole:
            return False
    return True


def _skeleton_parse(text, parser):
    """pxml parse hook. Returns None to let pxml parse `text` concretely."""
    with NoTracing():
        if not isinstance(text, core.CrossHairValue):
            return None
        if not isinstance(text, SymTemplate):
            parse_stats["fallback_realized"] += 1
            return lxml_etree._parse_concrete(realize(text), parser)
        pieces = text.__dict__["_pieces"]
        holes = []
        skel = []
        for p in pieces:
            if type(p) is str:
                skel.append(p)
            else:
                skel.append("%s%d%s" % (_TOK_OPEN, len(holes), _TOK_CLOSE))
                holes.append(p)
        skeleton = "".join(skel)
        # context of each hole, from the skeleton text: inside an attribute value or in content
        plain = True
        for i, h in enumerate(holes):
            if isinstance(h, DecStr):
                continue
            pos = skeleton.index("%s%d%s" % (_TOK_OPEN, i, _TOK_CLOSE))
            lt, gt = skeleton.rfind("<", 0, pos), skeleton.rfind(">", 0, pos)
            if lt > gt:  # inside a tag -> attribute value; find its delimiter
                seg = skeleton[lt:pos]
                dq, sq = seg.count('"'), seg.count("'")
                delim = '"' if dq % 2 == 1 else ("'" if sq % 2 == 1 else None)
                if delim is None:
                    plain = False
                    break
                bad = "<&\t\n\r" + delim
            else:
                bad = "<&\r"
            if not _hole_is_plain(h, bad):
                plain = False
                break
        if not plain:
            parse_stats["fallback_realized"] += 1
            return lxml_etree._parse_concrete(realize(text), parser)
        parse_stats["skeleton"] += 1
        root = lxml_etree._parse_concrete(skeleton, parser)
        for e in root.iter():
            d = e.__dict__
            ad = d["_px_attrib"]._d
            for k, v in list(ad.items()):
                if _TOK_OPEN in v:
                    ad[k] = _subst(v, holes)
            t = d["_px_text"]
            if t is not None and _TOK_OPEN in t:
                d["_px_text"] = _subst(t, holes)
            t = d["_px_tail"]
            if t is not None and _TOK_OPEN in t:
                d["_px_tail"] = _subst(t, holes)
        return root


lxml_etree = None


def install_parse_hook():
    global lxml_etree
    import lxml.etree as le

    assert getattr(le, "__stub__", None) == "pxml"
    lxml_etree = le
    le._parse_hook = _skeleton_parse

    # f-strings: keep the pieces
    from crosshair import opcode_intercept as oi
    from crosshair.tracers import COMPOSITE_TRACER, frame_stack_read, frame_stack_write

    def trace_op(self, frame, codeobj, codenum):
        count = oi.frame_op_arg(frame)
        pieces = []
        for offset in range(-(count), 0):
            substr = frame_stack_read(frame, offset)
            if not isinstance(substr, (str, bl.AnySymbolicStr)):
                raise oi.CrossHairInternal
            pieces.append(substr)
            frame_stack_write(frame, offset, "")
        real_result = make_template(pieces)

        def post_op():
            frame_stack_write(frame, -1, real_result)

        COMPOSITE_TRACER.set_postop_callback(post_op, frame)

    oi.BuildStringInterceptor.trace_op = trace_op


def install_fast_pxml():
    """Run pxml's structural operations (navigation, insertion, concrete parsing, XPath without value
    predicates) with tracing off: they only move element objects around and compare concrete tags;
    attribute values / text (the only places symbolic values live) are passed through untouched.
    Purely a speed-up: semantics are those of the traced code."""
    import functools

    import lxml.etree as le

    E = le._Element

    def untraced(fn):
        @functools.wraps(fn)
        def w(*a, **k):
            with NoTracing():
                return fn(*a, **k)

        return w

    def untraced_gen(fn):
        @functools.wraps(fn)
        def w(*a, **k):
            with NoTracing():
                items = list(fn(*a, **k))
            return iter(items)

        return w

    for name in ("find", "findall", "append", "insert", "remove", "index", "getparent", "getnext", "getprevious",
                 "addprevious", "addnext", "replace", "extend", "__len__", "__getitem__", "__contains__", "getchildren",
                 "_px_detach", "_px_adopt", "_px_check_new_child", "_px_root", "__deepcopy__", "makeelement"):
        setattr(E, name, untraced(getattr(E, name)))
    for name in ("iter", "iterchildren", "iterdescendants", "itersiblings", "iterancestors", "__iter__", "__reversed__"):
        setattr(E, name, untraced_gen(getattr(E, name)))
    E.nsmap = property(untraced(E.nsmap.fget))
    le.XMLParser.makeelement = untraced(le.XMLParser.makeelement)

    orig_xpath = E.xpath

    def xpath(self, expr, namespaces=None, **kw):
        if "=" in expr:  # value predicate: must see symbolic attribute values
            return orig_xpath(self, expr, namespaces, **kw)
        with NoTracing():
            return orig_xpath(self, expr, namespaces, **kw)

    E.xpath = xpath

    orig_tostring = le.tostring

    def _has_symbolic(e):
        for n in e.iter():
            d = n.__dict__
            if isinstance(d["_px_text"], core.CrossHairValue) or isinstance(d["_px_tail"], core.CrossHairValue):
                return True
            for v in d["_px_attrib"]._d.values():
                if isinstance(v, core.CrossHairValue):
                    return True
        return False

    def tostring(element, *a, **k):
        with NoTracing():
            root = element.getroot() if hasattr(element, "getroot") else element
            if not _has_symbolic(root):
                return orig_tostring(element, *a, **k)
        return orig_tostring(element, *a, **k)

    le.tostring = tostring

    orig_concrete = le._parse_concrete

    def parse_concrete(text, parser):
        with NoTracing():
            if isinstance(text, core.CrossHairValue):
                text = realize(text)
            return orig_concrete(text, parser)

    le._parse_concrete = parse_concrete
