"""Replay a counterexample on the real library (VERIF_REAL=1: real lxml, no CrossHair patches)."""
import importlib
import os
import traceback


def replay(modname, cond, args):
    assert os.environ.get("VERIF_REAL") == "1"
    from kit import env

    mod = importlib.import_module(modname)
    import lxml.etree

    assert getattr(lxml.etree, "__stub__", None) is None, "replay must run on real lxml"
    fn = getattr(mod, cond)
    ns = {"nan": float("nan"), "inf": float("inf")}
    ns.update(vars(mod))
    vals = {k: (eval(v, ns) if isinstance(v, str) else v) for k, v in args.items()}
    print("replaying %s.%s(%s) on real lxml %s" % (modname, cond, ", ".join("%s=%r" % kv for kv in vals.items()), lxml.etree.__version__))
    try:
        r = fn(**vals)
    except Exception:
        print("REPRODUCED: the harness body raised an undeclared exception on the real library")
        traceback.print_exc()
        return 1
    if not r:
        detail = getattr(mod, "LAST_DETAIL", None)
        print("REPRODUCED: postcondition is false on the real library", ("-- " + str(detail)) if detail else "")
        return 1
    print("NOT reproduced: postcondition holds on the real library")
    return 0
