"""fpsmt -- translate small arithmetic Python functions (read from the *live* class via
inspect/ast on every run) into z3 terms over IEEE binary64 (QF_FP) and mathematical integers.

Supported subset (anything else raises NotEncodable -> reported as 'not encoded', never skipped):
  statements : docstring, Assign / AugAssign to a Name, If/elif/else, Return, Raise, Expr(call)
  expressions: int/float/str/None/bool constants, Names, `cls.X` / `Class.X` constants resolved on
               the real class, + - * / (float), + - * // % (int), unary -, comparisons (chains),
               and/or/not, IfExp, calls: round(x) [1 arg], int(x), float(x), str(x), abs(x),
               isinstance(x, (int, float)) [decided from the declared kind of x],
               cls.method(...), super(...).method(...), Class.method(...) [inlined recursively]
  float % c  : only for a constant c in {360, -360, 360.0, -360.0}, by case split on the integer
               quotient over |x| <= 1440 (fmod is exact; subtraction of the multiple is exact)

Semantics: Python float = binary64, all float ops round-to-nearest-even; round(x) (one argument)
= roundToIntegral(RNE) converted to int; int(x) on a float truncates toward zero; `/` on ints is
true division after exact int->float conversion (valid for |ints| < 2**53, asserted as a bound).
"""
from __future__ import annotations

import ast
import inspect
import textwrap

import z3

F64 = z3.Float64()
RNE = z3.RNE()
RTZ = z3.RTZ()


class NotEncodable(Exception):
    pass


class V:
    """A value in the symbolic evaluation. kind: 'fp' | 'int' | 'bool' | 'none' | 'decstr' (str(int)) |
    'const' (arbitrary concrete Python object, e.g. a str or a class)."""

    __slots__ = ("kind", "t", "fp")

    def __init__(self, kind, t, fp=None):
        # fp: for kinds 'int'/'decstr' an integral-valued binary64 term with the same value (exact while
        # |value| < 2**53), so that queries can stay inside QF_FP instead of mixing BV/Int/Real/FP
        self.kind, self.t, self.fp = kind, t, fp

    def __repr__(self):
        return "V(%s, %s)" % (self.kind, self.t)


def fpval(x):
    return z3.FPVal(float(x), F64)


def lift(x):
    if isinstance(x, V):
        return x
    if x is None:
        return V("none", None)
    if isinstance(x, bool):
        return V("bool", z3.BoolVal(x))
    if isinstance(x, int):
        return V("int", z3.IntVal(x))
    if isinstance(x, float):
        return V("fp", fpval(x))
    return V("const", x)


def to_fp(v):
    if v.kind == "fp":
        return v.t
    if v.kind in ("int", "decstr") and v.fp is not None:
        return v.fp
    if v.kind == "int" and z3.is_int_value(z3.simplify(v.t)):
        return fpval(float(z3.simplify(v.t).as_long()))  # a constant: no Int->Real->FP conversion term
    if v.kind == "int":
        # exact for |n| < 2**53 (callers bound their ints); z3: int -> real -> fp (RNE)
        return z3.fpRealToFP(RNE, z3.ToReal(v.t), F64)
    raise NotEncodable("cannot convert %s to float" % v.kind)


def fp_to_int_trunc(t):
    """int(x) for a finite float |x| < 2**62: truncation toward zero."""
    bv = z3.fpToSBV(RTZ, t, z3.BitVecSort(64))
    return z3.BV2Int(bv, is_signed=True)


def fp_round_to_int(t):
    """round(x) with one argument: nearest integer, ties to even, as a Python int."""
    r = z3.fpRoundToIntegral(RNE, t)
    bv = z3.fpToSBV(RTZ, r, z3.BitVecSort(64))
    return z3.BV2Int(bv, is_signed=True)


class Outcome:
    def __init__(self, cond, kind, value=None, exc=None):
        self.cond, self.kind, self.value, self.exc = cond, kind, value, exc  # kind: 'return' | 'raise'


class Translator:
    def __init__(self, float_mod_range=1440.0):
        self.encoded = []  # qualified names of functions translated (for evidence)
        self.float_mod_range = float_mod_range
        self.int_mod_abs_bound = None  # when set: |x| bound used to case-split `x % const` on the FP shadow
        self.side_bounds = []  # extra assumptions the encoding relies on (z3 bools)

    # -- function level ------------------------------------------------------------------------
    def call(self, cls, name, args, owner=None):
        """Symbolically run classmethod `name` of `cls` (resolved through the MRO starting at
        `owner` when given). args: list of V. Returns list[Outcome]."""
        start = owner or cls
        fn = None
        defining = None
        for k in start.__mro__:
            if name in vars(k):
                fn = vars(k)[name]
                defining = k
                break
        if fn is None:
            raise NotEncodable("no method %s on %s" % (name, start))
        fn = getattr(fn, "__func__", fn)
        qn = "%s:%s.%s" % (defining.__module__, defining.__qualname__, name)
        if qn not in self.encoded:
            self.encoded.append(qn)
        src = textwrap.dedent(inspect.getsource(fn))
        fdef = ast.parse(src).body[0]
        params = [a.arg for a in fdef.args.args]
        env = {}
        if params and params[0] in ("cls", "self"):
            env[params[0]] = V("const", cls)
            params = params[1:]
        if len(params) != len(args):
            raise NotEncodable("arity mismatch calling %s" % qn)
        for p, a in zip(params, args):
            env[p] = a
        ctx = dict(cls=cls, defining=defining, globals=fn.__globals__)
        return self.block(fdef.body, env, z3.BoolVal(True), ctx)

    # -- statements ----------------------------------------------------------------------------
    def block(self, stmts, env, cond, ctx):
        """Returns list[Outcome]; falls off the end -> return None."""
        states = [(dict(env), cond)]
        outs = []
        for st in stmts:
            nxt = []
            for e, c in states:
                r_states, r_outs = self.stmt(st, e, c, ctx)
                nxt += r_states
                outs += r_outs
            states = nxt
            if not states:
                break
        for e, c in states:
            outs.append(Outcome(c, "return", V("none", None)))
        return outs

    def stmt(self, st, env, cond, ctx):
        """-> (continuing states [(env, cond)], outcomes)"""
        if isinstance(st, ast.Expr):
            if isinstance(st.value, ast.Constant):
                return [(env, cond)], []
            if isinstance(st.value, ast.Call):
                return self.call_stmt(st.value, env, cond, ctx)
            raise NotEncodable("expression statement %s" % ast.dump(st)[:80])
        if isinstance(st, ast.Assign):
            if len(st.targets) != 1 or not isinstance(st.targets[0], ast.Name):
                raise NotEncodable("assignment target")
            res = self.expr_paths(st.value, env, cond, ctx)
            states, outs = [], []
            for c, v, o in res:
                if o is not None:
                    outs.append(o)
                else:
                    e2 = dict(env)
                    e2[st.targets[0].id] = v
                    states.append((e2, c))
            return states, outs
        if isinstance(st, ast.AugAssign):
            if not isinstance(st.target, ast.Name):
                raise NotEncodable("augassign target")
            binop = ast.BinOp(left=ast.Name(id=st.target.id, ctx=ast.Load()), op=st.op, right=st.value)
            return self.stmt(ast.Assign(targets=[ast.Name(id=st.target.id, ctx=ast.Store())], value=binop), env, cond, ctx)
        if isinstance(st, ast.Return):
            if st.value is None:
                return [], [Outcome(cond, "return", V("none", None))]
            outs = []
            for c, v, o in self.expr_paths(st.value, env, cond, ctx):
                outs.append(o if o is not None else Outcome(c, "return", v))
            return [], outs
        if isinstance(st, ast.Raise):
            exc = st.exc
            name = None
            if isinstance(exc, ast.Call) and isinstance(exc.func, ast.Name):
                name = exc.func.id
            elif isinstance(exc, ast.Name):
                name = exc.id
            return [], [Outcome(cond, "raise", exc=name or "Exception")]
        if isinstance(st, ast.If):
            states, outs = [], []
            for c, v, o in self.expr_paths(st.test, env, cond, ctx):
                if o is not None:
                    outs.append(o)
                    continue
                b = self.truth(v)
                for branch, bc in ((st.body, z3.And(c, b)), (st.orelse, z3.And(c, z3.Not(b)))):
                    bc = z3.simplify(bc)
                    if z3.is_false(bc):
                        continue
                    cur = [(dict(env), bc)]
                    for s2 in branch:
                        nxt = []
                        for e3, c3 in cur:
                            rs, ro = self.stmt(s2, e3, c3, ctx)
                            nxt += rs
                            outs += ro
                        cur = nxt
                    states += cur
            return states, outs
        raise NotEncodable("statement %s" % type(st).__name__)

    def call_stmt(self, call, env, cond, ctx):
        states, outs = [], []
        for c, v, o in self.expr_paths(call, env, cond, ctx):
            if o is not None:
                outs.append(o)
            else:
                states.append((env, c))
        return states, outs

    # -- expressions ---------------------------------------------------------------------------
    def truth(self, v):
        if v.kind == "bool":
            return v.t
        if v.kind == "int":
            return v.t != 0
        if v.kind == "fp":
            return z3.Not(z3.fpIsZero(v.t))
        if v.kind == "none":
            return z3.BoolVal(False)
        if v.kind == "const":
            return z3.BoolVal(bool(v.t))
        raise NotEncodable("truth of %s" % v.kind)

    def expr_paths(self, node, env, cond, ctx):
        """-> list of (cond, V or None, Outcome or None): an expression may raise (via inlined calls)
        or split paths (IfExp, inlined calls with several returns)."""
        if isinstance(node, ast.Constant):
            return [(cond, lift(node.value), None)]
        if isinstance(node, (ast.BinOp, ast.UnaryOp)) and all(
            isinstance(n, (ast.Constant, ast.BinOp, ast.UnaryOp, ast.operator, ast.unaryop)) for n in ast.walk(node)
        ):
            # constant folding with Python's own arithmetic (e.g. 2**31 / 100000.0)
            val = eval(compile(ast.Expression(body=node), "<const>", "eval"), {"__builtins__": {}}, {})
            if isinstance(val, (int, float)) and not isinstance(val, bool):
                return [(cond, lift(val), None)]
        if isinstance(node, ast.Name):
            if node.id in env:
                return [(cond, env[node.id], None)]
            g = ctx["globals"]
            if node.id in g:
                return [(cond, lift(g[node.id]), None)]
            import builtins

            if hasattr(builtins, node.id):
                return [(cond, V("const", getattr(builtins, node.id)), None)]
            raise NotEncodable("unknown name %s" % node.id)
        if isinstance(node, ast.Attribute):
            out = []
            for c, base, o in self.expr_paths(node.value, env, cond, ctx):
                if o is not None:
                    out.append((c, None, o))
                    continue
                if base.kind == "const":
                    out.append((c, lift(getattr(base.t, node.attr)), None))
                else:
                    raise NotEncodable("attribute %s on %s" % (node.attr, base.kind))
            return out
        if isinstance(node, ast.UnaryOp):
            out = []
            for c, v, o in self.expr_paths(node.operand, env, cond, ctx):
                if o is not None:
                    out.append((c, None, o))
                elif isinstance(node.op, ast.USub):
                    out.append((c, V("fp", z3.fpNeg(v.t)) if v.kind == "fp" else V("int", -v.t), None))
                elif isinstance(node.op, ast.Not):
                    out.append((c, V("bool", z3.Not(self.truth(v))), None))
                else:
                    raise NotEncodable("unary op")
            return out
        if isinstance(node, ast.BinOp):
            out = []
            for c1, a, o1 in self.expr_paths(node.left, env, cond, ctx):
                if o1 is not None:
                    out.append((c1, None, o1))
                    continue
                for c2, b, o2 in self.expr_paths(node.right, env, c1, ctx):
                    if o2 is not None:
                        out.append((c2, None, o2))
                        continue
                    out += self.binop(node.op, a, b, c2)
            return out
        if isinstance(node, ast.Compare):
            out = []
            operands = [node.left] + list(node.comparators)
            partial = [(cond, [], None)]
            for opnd in operands:
                nxt = []
                for c, vals, o in partial:
                    if o is not None:
                        nxt.append((c, vals, o))
                        continue
                    for c2, v, o2 in self.expr_paths(opnd, env, c, ctx):
                        nxt.append((c2, vals + [v], o2))
                partial = nxt
            for c, vals, o in partial:
                if o is not None:
                    out.append((c, None, o))
                    continue
                if len(node.ops) == 1 and isinstance(node.ops[0], (ast.In, ast.NotIn)) and vals[1].kind == "const" and isinstance(vals[1].t, tuple):
                    # x in (e1, e2, ...): disjunction of equalities over the (single-path) element expressions
                    eqs = []
                    for elt in vals[1].t:
                        ps = self.expr_paths(elt, env, c, ctx)
                        if len(ps) != 1 or ps[0][2] is not None:
                            raise NotEncodable("membership test over a branching element")
                        eqs.append(self.compare(ast.Eq(), vals[0], ps[0][1]))
                    t = z3.Or(eqs) if eqs else z3.BoolVal(False)
                    out.append((c, V("bool", t if isinstance(node.ops[0], ast.In) else z3.Not(t)), None))
                    continue
                if len(node.ops) == 1 and isinstance(node.ops[0], (ast.In, ast.NotIn)):
                    a, b = vals
                    if b.kind == "decstr" and a.kind == "const" and isinstance(a.t, str) and any(ch not in "-0123456789" for ch in a.t):
                        out.append((c, V("bool", z3.BoolVal(isinstance(node.ops[0], ast.NotIn))), None))
                        continue
                    raise NotEncodable("membership test")
                terms = [self.compare(op, vals[i], vals[i + 1]) for i, op in enumerate(node.ops)]
                out.append((c, V("bool", z3.And(terms) if len(terms) > 1 else terms[0]), None))
            return out
        if isinstance(node, ast.BoolOp):
            # no short-circuit side effects in the supported subset
            partial = [(cond, [], None)]
            for opnd in node.values:
                nxt = []
                for c, vals, o in partial:
                    if o is not None:
                        nxt.append((c, vals, o))
                        continue
                    for c2, v, o2 in self.expr_paths(opnd, env, c, ctx):
                        nxt.append((c2, vals + [v], o2))
                partial = nxt
            out = []
            for c, vals, o in partial:
                if o is not None:
                    out.append((c, None, o))
                    continue
                ts = [self.truth(v) for v in vals]
                out.append((c, V("bool", z3.And(ts) if isinstance(node.op, ast.And) else z3.Or(ts)), None))
            return out
        if isinstance(node, ast.IfExp):
            out = []
            for c, t, o in self.expr_paths(node.test, env, cond, ctx):
                if o is not None:
                    out.append((c, None, o))
                    continue
                b = self.truth(t)
                out += self.expr_paths(node.body, env, z3.And(c, b), ctx)
                out += self.expr_paths(node.orelse, env, z3.And(c, z3.Not(b)), ctx)
            return out
        if isinstance(node, ast.Tuple):
            return [(cond, V("const", tuple(node.elts)), None)]
        if isinstance(node, ast.Call):
            return self.call_expr(node, env, cond, ctx)
        raise NotEncodable("expression %s" % type(node).__name__)

    def binop(self, op, a, b, c):
        if a.kind == "fp" or b.kind == "fp" or isinstance(op, ast.Div):
            if isinstance(op, ast.Mod):
                return self.float_mod(a, b, c)
            x, y = to_fp(a), to_fp(b)
            for v in (a, b):
                if v.kind == "int":
                    self.side_bounds.append(z3.And(v.t > -(2**53), v.t < 2**53))
            if isinstance(op, ast.Mult):
                return [(c, V("fp", z3.fpMul(RNE, x, y)), None)]
            if isinstance(op, ast.Div):
                return [(c, V("fp", z3.fpDiv(RNE, x, y)), None)]
            if isinstance(op, ast.Add):
                return [(c, V("fp", z3.fpAdd(RNE, x, y)), None)]
            if isinstance(op, ast.Sub):
                return [(c, V("fp", z3.fpSub(RNE, x, y)), None)]
            raise NotEncodable("float op %s" % type(op).__name__)
        if a.kind == "int" and b.kind == "int":
            if isinstance(op, ast.Mult):
                return [(c, V("int", a.t * b.t), None)]
            if isinstance(op, ast.Add):
                return [(c, V("int", a.t + b.t), None)]
            if isinstance(op, ast.Sub):
                return [(c, V("int", a.t - b.t), None)]
            if isinstance(op, (ast.FloorDiv, ast.Mod)):
                bv = z3.simplify(b.t)
                if not z3.is_int_value(bv) or bv.as_long() <= 0:
                    raise NotEncodable("int // or % by a non-constant or non-positive divisor")
                # for a positive divisor z3 div/mod (Euclidean) equal Python's floor div/mod
                if isinstance(op, ast.Mod) and a.fp is not None and self.int_mod_abs_bound is not None:
                    m = bv.as_long()
                    B = self.int_mod_abs_bound
                    self.side_bounds.append(z3.And(z3.fpLEQ(a.fp, fpval(B)), z3.fpGEQ(a.fp, fpval(-B))))
                    res = []
                    for k in range(-(B // m) - 1, B // m + 1):
                        rng = z3.And(z3.fpGEQ(a.fp, fpval(m * k)), z3.fpLT(a.fp, fpval(m * (k + 1))))
                        res.append((z3.And(c, rng), V("int", a.t % b.t, z3.fpSub(RNE, a.fp, fpval(m * k))), None))
                    return res
                return [(c, V("int", a.t / b.t if isinstance(op, ast.FloorDiv) else a.t % b.t), None)]
            raise NotEncodable("int op %s" % type(op).__name__)
        raise NotEncodable("binop on %s, %s" % (a.kind, b.kind))

    def float_mod(self, a, b, c):
        bt = z3.simplify(to_fp(b))
        x = to_fp(a)
        m = None
        for cand in (360.0, -360.0):
            if z3.is_true(z3.simplify(z3.fpEQ(bt, fpval(cand)))):
                m = cand
        if m is None:
            raise NotEncodable("float % by a value other than +-360")
        R = self.float_mod_range
        self.side_bounds.append(z3.And(z3.fpLEQ(x, fpval(R)), z3.fpGEQ(x, fpval(-R))))
        out = []
        kmax = int(R // 360) + 1
        # Python: mod = fmod(x, m) (sign of x, exact); if mod != 0 and (m < 0) != (mod < 0): mod += m
        for k in range(-kmax, kmax + 1):
            lo, hi = 360.0 * k, 360.0 * (k + 1)
            if k >= 0:
                rng = z3.And(z3.fpGEQ(x, fpval(lo)), z3.fpLT(x, fpval(hi)))
                fm = z3.fpSub(RNE, x, fpval(lo))  # fmod: in [0, 360), exact
            else:
                rng = z3.And(z3.fpGT(x, fpval(lo)), z3.fpLEQ(x, fpval(hi)))
                fm = z3.fpSub(RNE, x, fpval(hi))  # fmod: in (-360, 0], exact
            neg_m = m < 0
            adjust = z3.And(z3.Not(z3.fpIsZero(fm)), z3.BoolVal(neg_m) != z3.fpIsNegative(fm))
            res = z3.If(adjust, z3.fpAdd(RNE, fm, fpval(m)), fm)
            # Python returns copysign(0, m) for a zero result; sign of zero is irrelevant downstream
            out.append((z3.And(c, rng), V("fp", res), None))
        return out

    def compare(self, op, a, b):
        if a.kind == "none" or b.kind == "none":
            same = a.kind == b.kind
            if isinstance(op, (ast.Is, ast.Eq)):
                return z3.BoolVal(same)
            if isinstance(op, (ast.IsNot, ast.NotEq)):
                return z3.BoolVal(not same)
            raise NotEncodable("ordering comparison with None")
        if a.kind == "fp" or b.kind == "fp":
            x, y = to_fp(a), to_fp(b)
            table = {ast.Lt: z3.fpLT, ast.LtE: z3.fpLEQ, ast.Gt: z3.fpGT, ast.GtE: z3.fpGEQ, ast.Eq: z3.fpEQ}
            if type(op) in table:
                return table[type(op)](x, y)
            if isinstance(op, ast.NotEq):
                return z3.Not(z3.fpEQ(x, y))
        if a.kind == "int" and b.kind == "int":
            table = {ast.Lt: lambda p, q: p < q, ast.LtE: lambda p, q: p <= q, ast.Gt: lambda p, q: p > q,
                     ast.GtE: lambda p, q: p >= q, ast.Eq: lambda p, q: p == q, ast.NotEq: lambda p, q: p != q}
            if type(op) in table:
                return table[type(op)](a.t, b.t)
        if a.kind == "bool" and b.kind == "bool" and isinstance(op, (ast.Eq, ast.NotEq)):
            return a.t == b.t if isinstance(op, ast.Eq) else a.t != b.t
        raise NotEncodable("compare %s %s %s" % (a.kind, type(op).__name__, b.kind))

    def call_expr(self, node, env, cond, ctx):
        f = node.func
        if node.keywords:
            raise NotEncodable("keyword arguments")
        # evaluate arguments (path product)
        partial = [(cond, [], None)]
        for a in node.args:
            nxt = []
            for c, vals, o in partial:
                if o is not None:
                    nxt.append((c, vals, o))
                    continue
                for c2, v, o2 in self.expr_paths(a, env, c, ctx):
                    nxt.append((c2, vals + [v], o2))
            partial = nxt
        out = []
        for c, args, o in partial:
            if o is not None:
                out.append((c, None, o))
                continue
            out += self.apply(f, args, env, c, ctx)
        return out

    def apply(self, f, args, env, c, ctx):
        if isinstance(f, ast.Name) and f.id not in env:
            n = f.id
            if n in ("round", "int") and len(args) == 1 and args[0].kind == "fp":
                # Python: int()/round() of NaN raises ValueError, of +-inf OverflowError
                a = args[0]
                nan_c = z3.And(c, z3.fpIsNaN(a.t))
                inf_c = z3.And(c, z3.fpIsInf(a.t))
                fin_c = z3.And(c, z3.Not(z3.fpIsNaN(a.t)), z3.Not(z3.fpIsInf(a.t)))
                if n == "round":
                    val = V("int", fp_round_to_int(a.t), z3.fpRoundToIntegral(RNE, a.t))
                else:
                    val = V("int", fp_to_int_trunc(a.t), z3.fpRoundToIntegral(RTZ, a.t))
                return [(nan_c, None, Outcome(nan_c, "raise", exc="ValueError")),
                        (inf_c, None, Outcome(inf_c, "raise", exc="OverflowError")),
                        (fin_c, val, None)]
            if n == "round" and len(args) == 1:
                return [(c, args[0], None)]
            if n == "int" and len(args) == 1:
                a = args[0]
                if a.kind == "int":
                    return [(c, a, None)]
                if a.kind == "decstr":
                    return [(c, V("int", a.t, a.fp), None)]
            if n == "float" and len(args) == 1 and args[0].kind == "const" and isinstance(args[0].t, str):
                return [(c, V("fp", fpval(float(args[0].t))), None)]
            if n == "float" and len(args) == 1:
                a = args[0]
                if a.kind == "decstr":
                    return [(c, V("fp", to_fp(V("int", a.t, a.fp))), None)]
                return [(c, V("fp", to_fp(a)), None)]
            if n == "str" and len(args) == 1 and args[0].kind == "int":
                return [(c, V("decstr", args[0].t, args[0].fp), None)]
            if n == "abs" and len(args) == 1:
                a = args[0]
                return [(c, V("fp", z3.fpAbs(a.t)) if a.kind == "fp" else V("int", z3.If(a.t >= 0, a.t, -a.t)), None)]
            if n == "isinstance" and len(args) == 2:
                a = args[0]
                types_ = args[1].t if args[1].kind == "const" else None
                names = []
                if isinstance(types_, tuple):
                    names = [getattr(e, "id", getattr(e, "attr", None)) for e in types_]
                elif isinstance(types_, type):
                    names = [types_.__name__]
                else:
                    raise NotEncodable("isinstance types")
                is_num = a.kind in ("fp", "int")
                if a.kind == "fp":
                    ok = "float" in names
                elif a.kind == "int":
                    ok = "int" in names or "Integral" in names
                else:
                    ok = False
                return [(c, V("bool", z3.BoolVal(ok)), None)]
            raise NotEncodable("call to %s" % n)
        if isinstance(f, ast.Attribute):
            # cls.m(...), Class.m(...), super(...).m(...)
            base = f.value
            if isinstance(base, ast.Call) and isinstance(base.func, ast.Name) and base.func.id == "super":
                mro = ctx["cls"].__mro__
                owner_idx = mro.index(ctx["defining"]) + 1

                class _Start:  # pseudo class exposing the tail of the MRO
                    __mro__ = mro[owner_idx:]

                outs = self.call(ctx["cls"], f.attr, args, owner=_Start)
            else:
                vals = self.expr_paths(base, env, c, ctx)
                if (len(vals) == 1 and vals[0][1] is not None and vals[0][1].kind == "decstr" and f.attr in ("endswith", "startswith")
                        and len(args) == 1 and args[0].kind == "const" and isinstance(args[0].t, str)
                        and any(ch not in "-0123456789" for ch in args[0].t)):
                    return [(vals[0][0], V("bool", z3.BoolVal(False)), None)]
                if len(vals) != 1 or vals[0][1] is None or vals[0][1].kind != "const" or not isinstance(vals[0][1].t, type):
                    raise NotEncodable("method call on non-class")
                outs = self.call(vals[0][1].t, f.attr, args)
            res = []
            for o in outs:
                oc = z3.And(c, o.cond)
                if o.kind == "raise":
                    res.append((oc, None, Outcome(oc, "raise", exc=o.exc)))
                else:
                    res.append((oc, o.value, None))
            return res
        raise NotEncodable("call form")


def check(solver_assertions, timeout_ms=60000):
    """-> ('unsat'|'sat'|'unknown', model or None, seconds)"""
    import time

    s = z3.Solver()
    s.set("timeout", timeout_ms)
    for a in solver_assertions:
        s.add(a)
    t0 = time.time()
    r = s.check()
    dt = time.time() - t0
    return str(r), (s.model() if str(r) == "sat" else None), dt, s


def fp_model_value(model, var):
    """Concrete Python float for FP variable `var` in `model` (via its IEEE bit pattern)."""
    import struct

    bv = model.eval(z3.fpToIEEEBV(var), model_completion=True).as_long()
    return struct.unpack(">d", bv.to_bytes(8, "big"))[0]


def check_cvc5(assertions, timeout_s=1200, logic="QF_FP"):
    """Decide with the cvc5 wheel (1.4) through SMT-LIB text exported from z3.
    -> ('unsat'|'sat'|'unknown', seconds). Models are not read back: a 'sat' answer is re-checked with z3
    by the caller to obtain values."""
    import time

    import cvc5

    s = z3.Solver()
    for a in assertions:
        s.add(a)
    text = "(set-logic %s)\n" % logic + s.to_smt2()
    slv = cvc5.Solver()
    slv.setOption("tlimit-per", str(int(timeout_s * 1000)))
    parser = cvc5.InputParser(slv)
    parser.setStringInput(cvc5.InputLanguage.SMT_LIB_2_6, text, "q")
    sm = parser.getSymbolManager()
    t0 = time.time()
    res = "unknown"
    while True:
        cmd = parser.nextCommand()
        if cmd.isNull():
            break
        out = str(cmd.invoke(slv, sm)).strip()
        if out in ("sat", "unsat", "unknown"):
            res = out
        elif out.startswith("(error"):
            return "unknown", time.time() - t0, text
    return res, time.time() - t0, text
