"""C10 -- a child is inserted where the schema allows it. DESIGN.md section 6, C10 (Engine S-order).

For every registered element class x every child declaration read from the live descriptors
(tag, successor tuple, choice group) x every XSD complex type an element with that tag can have and
that permits the child: one z3 refutation query over sibling sequences of length <= L accepted by the
type's content model (minOccurs relaxed to 0).  The insertion mechanism is tied to the encoding by
the CrossHair lemmas in C10_mech.py.
"""
from kit.env import *  # noqa

setup()

import time  # noqa: E402

import z3  # noqa: E402

from kit import introspect  # noqa: E402
from kit import xsdmodel as X  # noqa: E402
from pptx.oxml.ns import qn  # noqa: E402
from pptx.oxml.xmlchemy import Choice, OneAndOnlyOne, OneOrMore, ZeroOrMore, ZeroOrOne, ZeroOrOneChoice  # noqa: E402

L = 6 if THOROUGH else 4
NSHARDS = 16
S = X.schemas()
LAST_DETAIL = None


def _safe_qn(nsptag):
    try:
        return qn(nsptag)
    except Exception:
        return None


def _obligations():
    """[(parent Clark tag, type key, kind, child Clark tag, successor Clark tags, member Clark tags, method name)]"""
    out = []
    skipped = []
    for clark, ecls in introspect.registered_classes():
        types = X.types_for_tag(S, clark)
        for d in introspect.children_of(ecls):
            if isinstance(d, (OneAndOnlyOne, ZeroOrOneChoice)):
                continue
            child = _safe_qn(d._nsptagname)
            succ = [t for t in (_safe_qn(s) for s in d._successors) if t]
            local = d._nsptagname.split(":")[-1]
            if isinstance(d, Choice):
                group = None
                for g in introspect.children_of(ecls):
                    if isinstance(g, ZeroOrOneChoice) and d in g._choices:
                        group = g
                members = [qn(c._nsptagname) for c in group._choices] if group else [child]
                kinds = [("change_to", "get_or_change_to_" + local, members)]
            elif isinstance(d, ZeroOrOne):
                kinds = [("insert_single", "_insert_" + d._prop_name, [child])]
            elif isinstance(d, (ZeroOrMore, OneOrMore)):
                kinds = [("insert_multi", "_insert_" + d._prop_name, [])]
            else:
                continue
            hit = False
            for T in types:
                ct = S.ctype(T)
                if child in ct.child_names():
                    hit = True
                    for kind, meth, members in kinds:
                        out.append((clark, T, kind, child, succ, members, meth, ecls.__name__))
            if not hit:
                skipped.append((clark, ecls.__name__, d._nsptagname))
    out += _literal_call_sites()
    return out, skipped


# hand-written `insert_element_before(child, "literal", ...)` call sites (outside the generated methods). The child
# element is a variable there; the table names the child tags each site can insert. The AST scan below fails the run
# (NotImplementedError -> harness error) when a site appears that the table does not cover.
LITERAL_SITES = {
    ("pptx/oxml/shapes/groupshape.py", "CT_GroupShape"): ["p:sp", "p:grpSp", "p:graphicFrame", "p:cxnSp", "p:pic"],
    ("pptx/shapes/shapetree.py", None): ["p:sp", "p:grpSp", "p:graphicFrame", "p:cxnSp", "p:pic"],  # add_group_shape(shapes)
}


def _literal_call_sites():
    import ast
    import os

    import pptx

    root = os.path.dirname(pptx.__file__)
    out = []
    for dirpath, _, files in os.walk(root):
        for f in files:
            if not f.endswith(".py") or f == "xmlchemy.py":
                continue
            path = os.path.join(dirpath, f)
            rel = "pptx/" + os.path.relpath(path, root).replace(os.sep, "/")
            tree = ast.parse(open(path).read())
            for cls in [n for n in ast.walk(tree) if isinstance(n, ast.ClassDef)]:
                for call in [n for n in ast.walk(cls) if isinstance(n, ast.Call)]:
                    fn = call.func
                    if not (isinstance(fn, ast.Attribute) and fn.attr == "insert_element_before"):
                        continue
                    succ = [a.value for a in call.args[1:] if isinstance(a, ast.Constant)]
                    if len(succ) != len(call.args) - 1:
                        raise NotImplementedError("non-literal successors at %s:%d" % (rel, call.lineno))
                    key = (rel, cls.name) if (rel, cls.name) in LITERAL_SITES else (rel, None)
                    if key not in LITERAL_SITES:
                        raise NotImplementedError("insert_element_before call site not covered: %s:%d in %s" % (rel, call.lineno, cls.name))
                    for parent in ("p:spTree", "p:grpSp"):
                        pc = qn(parent)
                        for T in X.types_for_tag(S, pc):
                            names = S.ctype(T).child_names()
                            for child in LITERAL_SITES[key]:
                                if qn(child) in names:
                                    ob = (pc, T, "insert_multi", qn(child), [qn(t) for t in succ], [],
                                          "insert_element_before@%s:%d" % (rel, call.lineno), cls.name)
                                    if not any(o[:6] == ob[:6] and o[4] == ob[4] for o in out):
                                        out.append(ob)
    return out


def _delta(D, q, t, dead):
    """z3 term for the DFA transition from state term q on symbol term t."""
    e = z3.IntVal(dead)
    for qq in range(len(D.trans)):
        row = z3.IntVal(dead)
        for a, to in enumerate(D.trans[qq]):
            if to >= 0:
                row = z3.If(t == a, z3.IntVal(to), row)
        e = z3.If(q == qq, row, e)
    return e


def _accepts(D, seq, n, dead):
    q = z3.IntVal(0)
    for k, t in enumerate(seq):
        q = z3.If(k < n, _delta(D, q, t, dead), q)
    return z3.Or([q == a for a in sorted(D.accepting)]) if D.accepting else z3.BoolVal(False)


def _insert_pos(tags, n, succ_idx):
    """Model of BaseOxmlElement.insert_element_before (tied to the real code by the lemmas in C10_mech.py): the new
    child goes before the first child, in document order, whose tag is one of the successors; none -> append."""
    pos = n
    for k in reversed(range(len(tags))):
        is_succ = z3.Or([tags[k] == c for c in succ_idx]) if succ_idx else z3.BoolVal(False)
        pos = z3.If(z3.And(k < n, is_succ), k, pos)
    return pos


def _with_insert(tags, pos, c):
    new = []
    for k in range(len(tags) + 1):
        prev = tags[k - 1] if k >= 1 else z3.IntVal(0)
        cur = tags[k] if k < len(tags) else z3.IntVal(0)
        new.append(z3.If(k < pos, cur, z3.If(k == pos, z3.IntVal(c), prev)))
    return new


def _query(ob):
    clark, T, kind, child, succ, members, meth, clsname = ob
    ct = S.ctype(T)
    D = X.dfa_for(ct, relax_min=True)
    A = D.alphabet
    dead = len(D.trans)
    c = A.index(child)
    succ_idx = [A.index(t) for t in succ if t in A]
    excl = [A.index(t) for t in members if t in A]
    tags = [z3.Int("t%d" % k) for k in range(L)]
    n = z3.Int("n")
    s = z3.Solver()
    s.set("timeout", 120000)
    s.add(0 <= n, n <= L)
    for k, t in enumerate(tags):
        s.add(0 <= t, t < len(A))
        for x in excl:
            s.add(z3.Implies(k < n, t != x))
    s.add(_accepts(D, tags, n, dead))
    pos = _insert_pos(tags, n, succ_idx)
    new = _with_insert(tags, pos, c)
    s.add(z3.Not(_accepts(D, new, n + 1, dead)))
    if kind != "change_to":
        # a schema-permitted position must exist for the ordering question to be meaningful
        s.add(z3.Or([z3.And(p <= n, _accepts(D, _with_insert(tags, z3.IntVal(p), c), n + 1, dead)) for p in range(L + 1)]))
    r = str(s.check())
    cex = None
    if r == "sat":
        m = s.model()
        nn = m.eval(n, model_completion=True).as_long()
        cex = [A[m.eval(t, model_completion=True).as_long()] for t in tags[:nn]]
    return r, cex, s


def order_replay(parent, type_key, kind, child, method, siblings):
    """Build the sibling sequence with real lxml, call the real generated method, validate with the DFA."""
    global LAST_DETAIL
    from pptx.oxml import parse_xml
    from pptx.oxml.ns import NamespacePrefixedTag

    def mk(clark):
        if clark == X.WILDCARD:
            return parse_xml('<x:foreign xmlns:x="urn:verif:foreign"/>')
        uri, local = clark[1:].split("}")
        return parse_xml('<v:%s xmlns:v="%s"/>' % (local, uri))

    ct = S.ctype(tuple(type_key))
    D = X.dfa_for(ct, relax_min=True)
    p = mk(parent)
    for t in siblings:
        p.append(mk(t))
    before = [e.tag if not e.tag.startswith("{urn:verif") else X.WILDCARD for e in p]
    if not D.accepts(before):
        return True  # not a schema-permitted context
    if method.startswith("insert_element_before@"):
        # literal call site: replay the call itself with the successors found by the AST scan
        succs = [t for o in _literal_call_sites() if o[6] == method for t in o[4]]
        from pptx.oxml.ns import NamespacePrefixedTag as _N
        p.insert_element_before(mk(child), *[_N.from_clark_name(t) for t in dict.fromkeys(succs)])
    elif kind == "change_to":
        getattr(p, method)()
    else:
        getattr(p, method)(mk(child))
    after = [e.tag if not e.tag.startswith("{urn:verif") else X.WILDCARD for e in p]
    if D.accepts(after):
        return True
    if kind != "change_to":
        ok_somewhere = any(D.accepts(before[:i] + [child] + before[i:]) for i in range(len(before) + 1))
        if not ok_somewhere:
            return True
    LAST_DETAIL = "%s.%s on children %s gives %s, rejected by %s" % (
        parent.split("}")[-1], method, [t.split("}")[-1] for t in before], [t.split("}")[-1] for t in after], ct.name)
    return False


def _run_shard(k):
    obs, skipped = _obligations()
    mine = [ob for i, ob in enumerate(obs) if i % NSHARDS == k]
    t0 = time.time()
    queries, samples = 0, []
    known = load_known_order()
    findings = []
    for ob in mine:
        r, cex, s = _query(ob)
        queries += 1
        if r == "unknown":
            return dict(status="unknown", queries=queries, message="query unknown for %s %s %s" % (ob[0], ob[2], ob[3]))
        if r == "sat":
            args = {"parent": repr(ob[0]), "type_key": repr(list(ob[1])), "kind": repr(ob[2]), "child": repr(ob[3]),
                    "method": repr(ob[6]), "siblings": repr(cex)}
            return dict(status="violated", queries=queries, solver_s=round(time.time() - t0, 2),
                        message="%s (%s, type %s): %s of %s into %s is misplaced" % (
                            ob[7], ob[0].split("}")[-1], ob[1][1], ob[6], ob[3].split("}")[-1], [t.split("}")[-1] for t in cex]),
                        counterexample=args, replay={"fn": "order_replay", "module": __name__, "args": args},
                        samples=[s.to_smt2()[:1500]])
        if len(samples) < 2:
            samples.append({"class": ob[7], "parent": ob[0].split("}")[-1], "type": ob[1][1], "op": ob[6],
                            "successors_in_type": [t.split("}")[-1] for t in ob[4] if t in X.dfa_for(S.ctype(ob[1]), True).alphabet],
                            "verdict": "unsat", "smt2_head": s.to_smt2()[:600]})
    return dict(status="holds", queries=queries, solver_s=round(time.time() - t0, 2), samples=samples,
                detail={"obligations_total": len(obs), "shard": k, "L": L,
                        "declarations_without_schema_type": len(skipped)})


def load_known_order():
    return []


_SHARD = '''
@smt(timeout=1500, encodes=["pptx.oxml.xmlchemy:BaseOxmlElement.insert_element_before", "pptx.oxml.xmlchemy:_BaseChildElement._add_inserter",
                            "pptx.oxml.xmlchemy:Choice._add_get_or_change_to_method", "pptx.oxml.xmlchemy:ZeroOrOneChoice._add_choice_remover"],
     bound="shard {k}/16 of (registered element class x child declaration x XSD type permitting the child); sibling sequences "
           "of length <= L (4 quick / 6 thorough) accepted by the content model with minOccurs relaxed to 0; successor tuples "
           "and choice members read from the live descriptors")
def order_shard_{k:02d}():
    return _run_shard({k})
'''
for _k in range(NSHARDS):
    gen(_SHARD.format(k=_k), globals())
