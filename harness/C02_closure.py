"""C02 -- every saved file is a closed, self-consistent package, after any history. DESIGN.md section 6, C02.
Symbolic operation sequences (the solver chooses the operations) on a deck whose slide part names are non-contiguous,
with the closure rules checked on the saved package by an independent reader (xml.etree)."""
from kit.env import *  # noqa

setup()

import copy  # noqa: E402
import xml.etree.ElementTree as ET  # noqa: E402

from harness import opc_model as M  # noqa: E402
from pptx import Presentation  # noqa: E402

ENC = ["pptx.opc.package:_Relationship.target_ref", "pptx.opc.package:_Relationship.target_partname", "pptx.opc.package:Part.partname",
       "pptx.parts.presentation:PresentationPart.rename_slide_parts", "pptx.parts.presentation:PresentationPart.add_slide",
       "pptx.opc.package:_Relationships.xml", "pptx.opc.package:_Relationships.get_or_add", "pptx.opc.package:_Relationships.get_or_add_ext_rel",
       "pptx.opc.package:XmlPart.drop_rel", "pptx.opc.package:XmlPart._rel_ref_count", "pptx.text.text:_Hyperlink.address",
       "pptx.text.text:_Hyperlink._add_hlinkClick", "pptx.text.text:_Hyperlink._remove_hlinkClick", "pptx.parts.slide:SlidePart.notes_slide",
       "pptx.parts.slide:NotesSlidePart._add_notes_slide_part", "pptx.opc.package:OpcPackage.next_partname", "pptx.presentation:Presentation.slides",
       "pptx.opc.serialized:PackageWriter._write", "pptx.opc.serialized:_ContentTypesItem._defaults_and_overrides", "pptx.slide:Slides.add_slide"]
RT_DOC = "http://schemas.openxmlformats.org/officeDocument/2006/relationships/officeDocument"
R_NS = "http://schemas.openxmlformats.org/officeDocument/2006/relationships"
LAST_DETAIL = None
URL1, URL2 = "http://example.com/a", "http://example.com/b"


def _base_members():
    """Default template + two slides (two hyperlinked runs sharing one URL on the first; notes on the second), saved, then
    the slide parts renamed on 'disk' to slide3.xml / slide7.xml (non-contiguous, as decks edited by other tools are)."""
    prs = Presentation()
    # keep three layouts only (title, title+content, title-only): every path re-loads and re-saves the whole deck
    for lo in [l for i, l in enumerate(prs.slide_layouts) if i not in (0, 1, 5)]:
        prs.slide_layouts.remove(lo)
    layout = prs.slide_layouts[1]
    s1 = prs.slides.add_slide(layout)
    s2 = prs.slides.add_slide(layout)
    tf = s1.shapes[1].text_frame
    p = tf.paragraphs[0]
    for txt in ("first", "second"):
        r = p.add_run()
        r.text = txt
        r.hyperlink.address = URL1
    s2.notes_slide.notes_text_frame.text = "notes of the second slide"
    mf = M.MemFile()
    prs.save(mf)
    out = {}
    for name, blob in mf.members.items():
        for old, new in (("slides/slide1.xml", "slides/slide\x003.xml"), ("slides/slide2.xml", "slides/slide\x007.xml")):
            name = name.replace(old, new).replace(old.replace("slides/", "slides/_rels/"), new.replace("slides/", "slides/_rels/"))
            blob = blob.replace(old.encode(), new.encode())
        out[name.replace("\x00", "")] = blob.replace(b"\x00", b"")
    # the only notes slide is stored as notesSlide1.xml although it belongs to the second slide (notes are numbered in
    # creation order by PowerPoint and by python-pptx alike)
    import re

    cur = [re.search(r"notesSlide(\d+)\.xml$", n).group(0) for n in out if re.search(r"notesSlides/notesSlide\d+\.xml$", n)][0]
    if cur != "notesSlide1.xml":
        out = {n.replace(cur, "notesSlide1.xml"): b.replace(cur.encode(), b"notesSlide1.xml") for n, b in out.items()}
    return out


BASE = _base_members()


def _closure_errors(mf):
    """Independent check of the closure rules on a saved package."""
    errs = []
    written = getattr(mf, "written", list(mf.members))
    if len(written) != len(set(written)):
        errs.append("duplicate member names: %s" % sorted(n for n in set(written) if written.count(n) > 1))
    if "[Content_Types].xml" not in mf.members or "_rels/.rels" not in mf.members:
        return errs + ["mandatory member missing"]
    d, o = M.read_content_types(mf.members["[Content_Types].xml"])
    parts = [("/" + n) for n in mf.members if n != "[Content_Types].xml" and "/_rels/" not in "/" + n]
    for p in parts:
        if M.type_of(d, o, p) is None:
            errs.append("no content type for %s" % p)
    main = None
    for src in ["/"] + parts:
        m = M.rels_member(src)
        rels = M.read_rels(mf.members[m]) if m in mf.members else []
        ids = [r[0] for r in rels]
        if len(ids) != len(set(ids)):
            errs.append("duplicate relationship ids in %s" % m)
        base = "/" if src == "/" else M.dirname(src)
        for rId, rt, tgt, ext in rels:
            if ext:
                continue
            t = M.resolve(base, tgt)
            if t[1:] not in mf.members:
                errs.append("%s %s -> %s: target member absent" % (src, rId, t))
            if src == "/" and rt == RT_DOC:
                main = t
        if src != "/" and src.endswith(".xml"):
            try:
                root = ET.fromstring(mf.members[src[1:]])
            except ET.ParseError:
                continue
            for e in root.iter():
                for k, v in e.attrib.items():
                    if k.startswith("{%s}" % R_NS) and v and v not in ids:
                        errs.append("%s uses %s=%s which is not in its relationship item" % (src, k.split("}")[1], v))
    if main is None or M.type_of(d, o, main) is None or "presentationml.presentation.main" not in M.type_of(d, o, main) and "macroEnabled" not in M.type_of(d, o, main):
        errs.append("office-document relationship does not lead to the presentation part (%s)" % main)
    return errs


def _apply(prs, op, scratch):
    if op == 0:
        prs.save(scratch)
    elif op == 1:
        len(prs.slides)
    elif op == 2:
        prs.slides.add_slide(prs.slide_layouts[2])
    elif op == 3:  # clear one of the two runs that share a hyperlink relationship
        run = prs.slides[0].shapes[1].text_frame.paragraphs[0].runs[0]
        run.hyperlink.address = None
    elif op == 4:  # retarget the second run
        run = prs.slides[0].shapes[1].text_frame.paragraphs[0].runs[1]
        run.hyperlink.address = URL2
    elif op == 5:  # notes of the slide that has none yet
        prs.slides[0].notes_slide.notes_text_frame.text = "n"
    elif op == 6:  # an API call rejected with a documented exception
        try:
            prs.slides[0].shapes[1].text_frame.paragraphs[0].runs[0].font.size = 10**9
        except ValueError:
            pass
        try:
            prs.slides[99]
        except IndexError:
            pass


OPS = ["save", "access-slides", "add-slide", "clear-shared-hyperlink", "retarget-hyperlink", "add-notes", "rejected-calls"]

_SEQ = '''
@cond(timeout=1500, encodes=ENC,
      bound="deck = default template + 2 slides in parts slide3.xml / slide7.xml (non-contiguous), two runs sharing one hyperlink "
            "relationship, notes on the second slide; operation sequence of length 3, first operation {first} (fixed in this split), "
            "the other two any of %d operations (%s); saving at the end (and wherever 'save' occurs): member names unique, every part "
            "has a content type, every internal target is present, every r:* id used in a part's XML exists in its relationship "
            "item, the office-document relationship leads to the presentation; re-opening shows the same slide count and texts" % (len(OPS), ", ".join(OPS)))
def history_leaves_package_closed_{first_id}(b: int, c: int) -> bool:
    """
    pre: 0 <= b < len(OPS) and 0 <= c < len(OPS)
    post: _
    """
    return _history([{first_id}, b, c])
'''


def _history(ops):
    prs = Presentation(M.MemFile(dict(BASE)))
    scratch = M.MemFile()
    for op in ops:
        _apply(prs, op, scratch)
        if op == 0:
            errs = _closure_errors(scratch)
            if errs:
                detail(globals(), "after %s an intermediate save is not closed: %s", [OPS[o] for o in ops], errs[:3])
                return False
    final = M.MemFile()
    prs.save(final)
    errs = _closure_errors(final)
    if errs:
        detail(globals(), "after %s the saved package is not closed: %s", [OPS[o] for o in ops], errs[:3])
        return False
    again = Presentation(final)
    want = [[sh.text_frame.text for sh in s.shapes if sh.has_text_frame] for s in prs.slides]
    got = [[sh.text_frame.text for sh in s.shapes if sh.has_text_frame] for s in again.slides]
    notes_want = [s.notes_slide.notes_text_frame.text if s.has_notes_slide else None for s in prs.slides]
    notes_got = [s.notes_slide.notes_text_frame.text if s.has_notes_slide else None for s in again.slides]
    if want != got or notes_want != notes_got:
        detail(globals(), "after %s the re-opened deck shows %s / %s instead of %s / %s", [OPS[o] for o in ops], got, notes_got, want, notes_want)
        return False
    return True


for _i in range(len(OPS)):
    gen(_SEQ.format(first=OPS[_i], first_id=_i), globals())


@cond(expect="refute", timeout=600, twin_of="history_leaves_package_closed_0")
def history_twin(b: int, c: int) -> bool:
    """
    pre: 0 <= b < len(OPS) and 0 <= c < len(OPS)
    post: _
    """
    prs = Presentation(M.MemFile(dict(BASE)))
    scratch = M.MemFile()
    for op in (0, b, c):
        _apply(prs, op, scratch)
    final = M.MemFile()
    prs.save(final)
    # reach: slides renamed and a third slide added -> slide1..3 present, old names gone
    return not ("ppt/slides/slide3.xml" in final.members and "ppt/slides/slide7.xml" not in final.members and OPS[c] == "add-notes")
