"""C06 -- shape ids, slide ids, relationship ids and part names are unique and stable. DESIGN.md section 6, C06.
One inductive step from an arbitrary population, per allocator."""
from kit.env import *  # noqa

setup()

from pptx.enum.shapes import MSO_CONNECTOR, MSO_SHAPE  # noqa: E402
from pptx.opc.package import OpcPackage, _Relationships  # noqa: E402
from pptx.opc.packuri import PackURI  # noqa: E402
from pptx.oxml import parse_xml  # noqa: E402
from pptx.oxml.ns import nsdecls  # noqa: E402
from pptx.oxml.shapes.autoshape import CT_Shape  # noqa: E402
from pptx.package import Package  # noqa: E402
from pptx.shapes.shapetree import SlideShapes  # noqa: E402

IDMAX = 2**31
ENC_SH = ["pptx.shapes.shapetree:_BaseShapes._next_shape_id", "pptx.oxml.shapes.groupshape:CT_GroupShape.max_shape_id",
          "pptx.oxml.shapes.groupshape:CT_GroupShape._next_shape_id", "pptx.shapes.shapetree:_BaseGroupShapes.add_textbox",
          "pptx.shapes.shapetree:_BaseGroupShapes.add_group_shape", "pptx.shapes.shapetree:_BaseGroupShapes.add_connector",
          "pptx.shapes.shapetree:_BaseShapes.turbo_add_enabled"]


def _sptree():
    return parse_xml(
        "<p:spTree %s><p:nvGrpSpPr><p:cNvPr id=\"1\" name=\"\"/><p:cNvGrpSpPr/><p:nvPr/></p:nvGrpSpPr>"
        "<p:grpSpPr/></p:spTree>" % nsdecls("p", "a")
    )


def _populate(a, b, c, odd):
    """spTree holding: shape id=a, group id=b containing shape id=c; optionally a non-numeric @id on a foreign element."""
    spTree = _sptree()
    shapes = SlideShapes(spTree, None)
    spTree.append(CT_Shape.new_autoshape_sp(a, "A", "rect", 0, 0, 10, 10))
    g = spTree.add_grpSp()
    g.nvGrpSpPr.cNvPr.id = b
    g.append(CT_Shape.new_autoshape_sp(c, "C", "rect", 0, 0, 10, 10))
    if odd:
        spTree.append(parse_xml('<p:extLst %s><p:ext uri="u" id="abc"/></p:extLst>' % nsdecls("p")))
    return spTree, shapes


def _all_ids(spTree):
    return [int(s) for s in spTree.xpath("//@id") if s.isdigit()]


@cond(timeout=300, encodes=ENC_SH,
      bound="population: shape id a, group id b holding shape id c, every int in 0..2^31 (duplicates allowed), optional "
            "non-numeric @id; one addition of each kind: textbox (max+1 allocator), group shape (first-gap allocator), connector")
def new_shape_ids_are_fresh(a: int, b: int, c: int, odd: bool, kind: int) -> bool:
    """
    pre: 0 <= a <= IDMAX and 0 <= b <= IDMAX and 0 <= c <= IDMAX and 0 <= kind <= 2
    post: _
    """
    spTree, shapes = _populate(a, b, c, odd)
    before = _all_ids(spTree)
    if kind == 0:
        new = shapes.add_textbox(0, 0, 10, 10)
    elif kind == 1:
        new = shapes.add_group_shape()
    else:
        new = shapes.add_connector(MSO_CONNECTOR.STRAIGHT, 0, 0, 5, 5)
    nid = new.shape_id
    after = _all_ids(spTree)
    return nid > 0 and all(nid != x for x in before) and after == before + [nid]


@cond(expect="refute", timeout=120, twin_of="new_shape_ids_are_fresh")
def new_shape_ids_twin(a: int, b: int, c: int) -> bool:
    """
    pre: 0 <= a <= IDMAX and 0 <= b <= IDMAX and 0 <= c <= IDMAX
    post: _
    """
    spTree, shapes = _populate(a, b, c, False)
    new = shapes.add_group_shape()
    return not (new.shape_id == 3 and c == 2 and a > 100)


@cond(timeout=300, encodes=ENC_SH,
      bound="same population; additions inside the nested group's shape collection (GroupShapes of the group with id b)")
def new_shape_ids_in_group_are_fresh(a: int, b: int, c: int, kind: int) -> bool:
    """
    pre: 0 <= a <= IDMAX and 0 <= b <= IDMAX and 0 <= c <= IDMAX and 0 <= kind <= 1
    post: _
    """
    spTree, shapes = _populate(a, b, c, False)
    before = _all_ids(spTree)
    grp = [s for s in shapes if s.shape_id == b and hasattr(s, "shapes")][0]
    new = grp.shapes.add_textbox(0, 0, 10, 10) if kind == 0 else grp.shapes.add_group_shape()
    nid = new.shape_id
    return nid > 0 and all(nid != x for x in before) and _all_ids(spTree).count(nid) == 1


@cond(timeout=300, encodes=ENC_SH,
      bound="turbo-add mode on one SlideShapes object: population as above, then textbox, then (optionally) a group shape "
            "or freeform through the same collection, then another textbox: all ids pairwise distinct")
def turbo_mode_ids_are_fresh(a: int, b: int, c: int, mid: int) -> bool:
    """
    pre: 0 <= a <= IDMAX and 0 <= b <= IDMAX and 0 <= c <= IDMAX and 0 <= mid <= 2
    pre: not excluded("turbo_mode_ids_are_fresh", mid=mid)
    post: _
    """
    spTree, shapes = _populate(a, b, c, False)
    shapes.turbo_add_enabled = True
    s1 = shapes.add_textbox(0, 0, 10, 10)
    if mid == 1:
        shapes.add_group_shape()
    elif mid == 2:
        fb = shapes.build_freeform(0, 0, scale=1)
        fb.add_line_segments([(5, 5)], close=False)
        fb.convert_to_shape()
    s2 = shapes.add_textbox(0, 0, 10, 10)
    ids = _all_ids(spTree)
    return ids.count(s1.shape_id) == 1 and ids.count(s2.shape_id) == 1 and s1.shape_id != s2.shape_id


# ------------------------------------------------------------------ slide ids
from pptx.oxml.presentation import CT_SlideIdList  # noqa: E402

ENC_SLD = ["pptx.oxml.presentation:CT_SlideIdList._next_id", "pptx.oxml.presentation:CT_SlideIdList.add_sldId"]
SMIN, SMAX = 256, 2147483647


def _sldIdLst(ids):
    lst = parse_xml("<p:sldIdLst %s/>" % nsdecls("p", "r"))
    for k, v in enumerate(ids):
        e = parse_xml('<p:sldId %s id="256" r:id="rIdX%d"/>' % (nsdecls("p", "r"), k))
        e.id = v
        lst.append(e)
    return lst


@cond(timeout=300, encodes=ENC_SLD,
      bound="k <= 3 existing slide ids, each any int in 256..2147483647 (duplicates allowed): the new id is in range, "
            "differs from every existing id, existing ids are unchanged")
def new_slide_id_is_fresh(k: int, a: int, b: int, c: int) -> bool:
    """
    pre: 0 <= k <= 3 and SMIN <= a <= SMAX and SMIN <= b <= SMAX and SMIN <= c <= SMAX
    post: _
    """
    ids = [a, b, c][:k]
    lst = _sldIdLst(ids)
    new = lst.add_sldId("rId9")
    got = [e.id for e in lst.sldId_lst]
    return SMIN <= new.id <= SMAX and new.id not in ids and got == ids + [new.id] and new.rId == "rId9"


@cond(expect="refute", timeout=120, twin_of="new_slide_id_is_fresh")
def new_slide_id_twin(a: int, b: int, c: int) -> bool:
    """
    pre: SMIN <= a <= SMAX and SMIN <= b <= SMAX and SMIN <= c <= SMAX
    post: _
    """
    lst = _sldIdLst([a, b, c])
    new = lst.add_sldId("rId9")
    # reach the fallback branch: max id in use and 256, 257 taken -> 258
    return not (new.id == 258 and a == SMAX)


# ------------------------------------------------------------------ relationship ids
ENC_REL = ["pptx.opc.package:_Relationships._next_rId", "pptx.opc.package:_Relationships._add_relationship",
           "pptx.opc.package:_Relationships.get_or_add_ext_rel"]
RKEYS = ["rId1", "rId2", "rId3", "rId4", "rId7", "rIdX", "R9"]


class _StandInRel:
    """Existing relationship: only the attributes _Relationships reads (contract of _Relationship)."""

    def __init__(self, key):
        self.key = key
        self.rId = key
        self.reltype = "http://t/other"
        self.is_external = True
        self.target_ref = "http://y/" + key
        self.target_part = None


@cond(timeout=300, encodes=ENC_REL,
      bound="existing relationship ids: any subset of [rId1, rId2, rId3, rId4, rId7, rIdX, R9] (7 booleans); one external "
            "relationship is added: its id is new, existing ids and targets unchanged, the same URL is not added twice")
def new_rId_is_fresh(k0: bool, k1: bool, k2: bool, k3: bool, k4: bool, k5: bool, k6: bool) -> bool:
    """
    post: _
    """
    rels = _Relationships("/ppt/slides")
    have = [k for k, b in zip(RKEYS, (k0, k1, k2, k3, k4, k5, k6)) if b]
    for k in have:
        rels._rels[k] = _StandInRel(k)
    new = rels.get_or_add_ext_rel("http://t/type", "http://x/1")
    again = rels.get_or_add_ext_rel("http://t/type", "http://x/1")
    return (new not in have and new == again and len(rels) == len(have) + 1
            and all(rels._rels[k].key == k and rels._rels[k].target_ref == "http://y/" + k for k in have)
            and new.startswith("rId") and new[3:].isdigit() and rels[new].target_ref == "http://x/1")


@cond(expect="refute", timeout=60, twin_of="new_rId_is_fresh")
def new_rId_twin(k0: bool, k1: bool, k2: bool, k3: bool, k4: bool, k5: bool, k6: bool) -> bool:
    """
    post: _
    """
    rels = _Relationships("/ppt/slides")
    for k, b in zip(RKEYS, (k0, k1, k2, k3, k4, k5, k6)):
        if b:
            rels._rels[k] = _StandInRel(k)
    return rels.get_or_add_ext_rel("http://t/type", "http://x/1") != "rId3"


# ------------------------------------------------------------------ part names
ENC_PN = ["pptx.opc.package:OpcPackage.next_partname", "pptx.package:Package.next_image_partname",
          "pptx.package:Package.next_media_partname", "pptx.parts.presentation:PresentationPart.rename_slide_parts"]


class _P:
    def __init__(self, partname):
        self.partname = partname


def _pkg(cls, names):
    pkg = cls.__new__(cls)
    parts = [_P(PackURI(n)) for n in names]
    pkg.iter_parts = lambda: iter(parts)
    return pkg


@cond(timeout=300, encodes=ENC_PN,
      bound="existing parts /ppt/slides/slide<n>.xml for k <= 3 symbolic n in 1..6 (duplicates allowed) plus two fixed parts of "
            "other kinds: next_partname returns a name no existing part has, of the template's form")
def next_partname_is_fresh(k: int, n0: int, n1: int, n2: int) -> bool:
    """
    pre: 0 <= k <= 3 and 1 <= n0 <= 6 and 1 <= n1 <= 6 and 1 <= n2 <= 6
    post: _
    """
    names = ["/ppt/slides/slide%d.xml" % n for n in (n0, n1, n2)[:k]] + ["/ppt/slideLayouts/slideLayout1.xml", "/ppt/presentation.xml"]
    pkg = _pkg(OpcPackage, names)
    new = pkg.next_partname("/ppt/slides/slide%d.xml")
    return new not in names and new.startswith("/ppt/slides/slide") and new.endswith(".xml") and new.idx is not None and new.idx >= 1


@cond(timeout=300, encodes=ENC_PN,
      bound="existing media parts /ppt/media/image<n>.<ext> for k <= 3 symbolic n in 1..5 and ext index in [png, jpg]: the new "
            "image/media part name is not an existing name")
def next_image_partname_is_fresh(k: int, n0: int, n1: int, n2: int, e0: bool, e1: bool, e2: bool, media: bool) -> bool:
    """
    pre: 0 <= k <= 3 and 1 <= n0 <= 5 and 1 <= n1 <= 5 and 1 <= n2 <= 5
    post: _
    """
    stem = "/ppt/media/media" if media else "/ppt/media/image"
    names = [stem + "%d.%s" % (n, "png" if e else "jpg") for n, e in zip((n0, n1, n2), (e0, e1, e2))][:k]
    pkg = _pkg(Package, names + ["/ppt/presentation.xml"])
    new = pkg.next_media_partname("png") if media else pkg.next_image_partname("png")
    return new not in names and new.startswith(stem) and new.endswith(".png")


from pptx.parts.presentation import PresentationPart  # noqa: E402


class _Rel:
    def __init__(self, part):
        self.target_part = part


@cond(timeout=300, encodes=ENC_PN,
      bound="3 slide parts named slide<n>.xml for symbolic n in 1..9 (duplicates and gaps allowed), related as rId1..3; "
            "rename_slide_parts with the ids in any of the 6 orders: names become slide1..3 in that order, pairwise distinct")
def rename_slide_parts_sequences(n0: int, n1: int, n2: int, perm: int) -> bool:
    """
    pre: 1 <= n0 <= 9 and 1 <= n1 <= 9 and 1 <= n2 <= 9 and 0 <= perm < 6
    post: _
    """
    from pptx.opc.package import Part

    parts = {}
    for rId, n in zip(("rId1", "rId2", "rId3"), (n0, n1, n2)):
        p = Part.__new__(Part)
        p._partname = PackURI("/ppt/slides/slide%d.xml" % n)
        parts[rId] = p
    prs = PresentationPart.__new__(PresentationPart)
    prs.related_part = lambda rId: parts[rId]
    order = [("rId1", "rId2", "rId3"), ("rId1", "rId3", "rId2"), ("rId2", "rId1", "rId3"), ("rId2", "rId3", "rId1"),
             ("rId3", "rId1", "rId2"), ("rId3", "rId2", "rId1")][perm]
    prs.rename_slide_parts(order)
    got = [parts[r].partname for r in order]
    return got == ["/ppt/slides/slide1.xml", "/ppt/slides/slide2.xml", "/ppt/slides/slide3.xml"]
