"""C18 -- core document properties round-trip and stay valid. DESIGN.md section 6, C18."""
from kit.env import *  # noqa

setup()

import datetime as dt  # noqa: E402

from pptx.opc.constants import RELATIONSHIP_TYPE as RT  # noqa: E402
from pptx.oxml.coreprops import CT_CoreProperties  # noqa: E402
from pptx.oxml.ns import qn  # noqa: E402
from pptx.package import Package  # noqa: E402
from pptx.parts.coreprops import CorePropertiesPart  # noqa: E402

ENC = ["pptx.oxml.coreprops:CT_CoreProperties." + n for n in (
    "_set_element_text", "_text_of_element", "revision_number", "_offset_dt", "_parse_W3CDTF_to_datetime",
    "_set_element_datetime", "_datetime_of_element", "_get_or_add")] + [
    "pptx.parts.coreprops:CorePropertiesPart.default", "pptx.package:Package.core_properties"]
TEXT_PROPS = ["author", "category", "comments", "content_status", "identifier", "keywords", "language", "last_modified_by",
              "subject", "title", "version"]
DATE_PROPS = ["created", "last_printed", "modified"]
CHILD_OF = {"author": "dc:creator", "category": "cp:category", "comments": "dc:description", "content_status": "cp:contentStatus",
            "identifier": "dc:identifier", "keywords": "cp:keywords", "language": "dc:language",
            "last_modified_by": "cp:lastModifiedBy", "subject": "dc:subject", "title": "dc:title", "version": "cp:version",
            "created": "dcterms:created", "last_printed": "cp:lastPrinted", "modified": "dcterms:modified", "revision": "cp:revision"}


def _part():
    return CorePropertiesPart(None, None, None, CT_CoreProperties.new_coreProperties())


def _children_ok(elm):
    """opc-coreProperties.xsd: xsd:all -- each declared child at most once; created/modified carry xsi:type W3CDTF."""
    tags = [c.tag for c in elm]
    allowed = set(qn(t) for t in CHILD_OF.values())
    ok = all(t in allowed for t in tags) and len(set(tags)) == len(tags)
    for c in elm:
        if c.tag in (qn("dcterms:created"), qn("dcterms:modified")):
            ok = ok and c.get(qn("xsi:type")) == "dcterms:W3CDTF"
    return ok


@cond(timeout=600, encodes=ENC,
      bound="each of the 11 string properties (symbolic index); value: any str with len <= 257 (only the length is constrained), "
            "assigned after an optional earlier assignment: <= 255 chars read back unchanged, longer raise ValueError and change nothing")
def string_property_round_trip(k: int, s: str, again: bool) -> bool:
    """
    pre: 0 <= k < len(TEXT_PROPS) and len(s) <= 257
    post: _
    """
    part = _part()
    name = TEXT_PROPS[k]
    if again:
        setattr(part, name, "earlier")
    before = getattr(part, name)
    try:
        setattr(part, name, s)
    except ValueError:
        return len(s) > 255 and getattr(part, name) == before and _children_ok(part._element)
    others = all(getattr(part, o) == "" for o in TEXT_PROPS if o != name)
    return len(s) <= 255 and getattr(part, name) == s and others and _children_ok(part._element) and len(part._element) == 1


# the length limit counts characters, whatever they are: boundary lengths x characters of every encoded width and markup characters
UNITS = ["a", "&", "<", "\u00e9", "\u4e2d", "\U0001F600", "\U00020000", "]]>"]
COUNTS = [0, 1, 84, 85, 86, 127, 128, 254, 255, 256, 257]


@cond(timeout=900, encodes=ENC,
      bound="each of the 11 string properties x a string made of c copies of one unit, c from [0, 1, 84, 85, 86, 127, 128, 254, 255, 256, "
            "257] and the unit from [a, &, <, U+00E9, U+4E2D, U+1F600, U+20000, ]]>] (choice variables: exhaustive over 968 cases; covers "
            "characters of 1-4 UTF-8 bytes, 1-2 UTF-16 units and characters that are escaped when serialised): accepted iff "
            "len(s) <= 255, then read back unchanged")
def string_property_length_counts_characters(k: int, u: int, c: int) -> bool:
    """
    pre: 0 <= k < len(TEXT_PROPS) and 0 <= u < len(UNITS) and 0 <= c < len(COUNTS)
    post: _
    """
    part = _part()
    name = choose(TEXT_PROPS, k)
    s = choose(UNITS, u) * choose(COUNTS, c)
    try:
        setattr(part, name, s)
    except ValueError:
        return len(s) > 255 and getattr(part, name) == ""
    return len(s) <= 255 and getattr(part, name) == s


@cond(expect="refute", timeout=120, twin_of="string_property_round_trip")
def string_property_twin(s: str) -> bool:
    """
    pre: len(s) <= 257
    post: _
    """
    part = _part()
    try:
        part.title = s
    except ValueError:
        return len(s) != 256
    return True


@cond(timeout=120, encodes=ENC, bound="revision: every int; >= 1 reads back, others raise ValueError and change nothing (bool outside the claim)")
def revision_round_trip(v: int, had: int) -> bool:
    """
    pre: 0 <= had <= 10**6
    post: _
    """
    part = _part()
    if had:
        part.revision = had
    try:
        part.revision = v
    except ValueError:
        return v < 1 and part.revision == had
    return v >= 1 and part.revision == v and _children_ok(part._element)


@cond(timeout=300, encodes=ENC, bound="cp:revision text: any str of length <= 3 over the alphabet [0-9+- ax_.]: the reader never raises and returns an int >= 0")
def revision_reader_total(s: str) -> bool:
    """
    pre: len(s) <= 3 and all(c in "0123456789-+ ax_." for c in s)
    post: _
    """
    part = _part()
    part.revision = 1
    part._element.revision.text = s
    r = part.revision
    return isinstance(r, int) and r >= 0


import pptx.oxml.coreprops as CP  # noqa: E402


class _DTShim:
    """Stand-in for the `datetime` module inside pptx.oxml.coreprops while an offset condition runs: strptime (libc) returns
    a value rebuilt through the traced constructor so that CrossHair's datetime model and its timedelta model can be added
    (a real C datetime plus a modelled timedelta raises TypeError under CrossHair). Contract: same fields as strptime's result."""

    timedelta = dt.timedelta

    class datetime:
        @staticmethod
        def strptime(s, tmpl):
            r = untraced_call(dt.datetime.strptime, s, tmpl)
            return dt.datetime(r.year, r.month, r.day, r.hour, r.minute, r.second)


def _with_shim(fn, *a):
    if REAL:
        return fn(*a)
    saved = CP.dt
    CP.dt = _DTShim
    try:
        return fn(*a)
    finally:
        CP.dt = saved


@cond(timeout=900, encodes=ENC,
      bound="W3CDTF offsets: every string sign+HH+':'+MM with sign in '+-', HH in 00..14, MM in 00..59 (symbolic digit characters, "
            "real regex and int()): the value read is local time minus the offset (UTC)")
def offset_is_converted_to_utc(plus: bool, h1: int, h2: int, m1: int, m2: int) -> bool:
    """
    pre: 0 <= h1 <= 1 and 0 <= h2 <= 9 and 0 <= m1 <= 5 and 0 <= m2 <= 9 and 10 * h1 + h2 <= 14
    post: _
    """
    off = ("+" if plus else "-") + chr(48 + h1) + chr(48 + h2) + ":" + chr(48 + m1) + chr(48 + m2)
    got = _with_shim(CT_CoreProperties._parse_W3CDTF_to_datetime, "2003-12-31T10:14:55" + off)
    minutes = 60 * (10 * h1 + h2) + (10 * m1 + m2)
    base = dt.datetime(2003, 12, 31, 10, 14, 55)
    want = base - dt.timedelta(minutes=minutes) if plus else base + dt.timedelta(minutes=minutes)
    return got == want


@cond(expect="refute", timeout=300, twin_of="offset_is_converted_to_utc")
def offset_twin(plus: bool, h1: int, h2: int, m1: int, m2: int) -> bool:
    """
    pre: 0 <= h1 <= 1 and 0 <= h2 <= 9 and 0 <= m1 <= 5 and 0 <= m2 <= 9 and 10 * h1 + h2 <= 14
    post: _
    """
    off = ("+" if plus else "-") + chr(48 + h1) + chr(48 + h2) + ":" + chr(48 + m1) + chr(48 + m2)
    got = _with_shim(CT_CoreProperties._parse_W3CDTF_to_datetime, "2003-12-31T10:14:55" + off)
    return got != dt.datetime(2003, 12, 31, 4, 44, 55)


YEARS = [1, 9, 10, 99, 100, 999, 1000, 1582, 1999, 2024, 9999]
MONTHS = [1, 2, 12]
DAYS = [1, 28, 31]
HMS = [(0, 0, 0), (23, 59, 59), (12, 30, 1)]


_DT_RT = '''
@cond(timeout=600, encodes=ENC,
      bound="date property {prop} x datetimes from boundary pools chosen by the solver: year in [1, 9, 10, 99, 100, 999, 1000, 1582, "
            "1999, 2024, 9999], month in [1, 2, 12], day in [1, 28, 31] (valid dates only), time in 3 values, microsecond 0 or "
            "999999: read back equal to the second; strftime/strptime are libc-backed and run concretely per path (choice "
            "variables: bounded exhaustive exploration)")
def datetime_round_trip_{prop}(y: int, mo: int, d: int, t: int, us: bool) -> bool:
    """
    pre: 0 <= y < len(YEARS) and 0 <= mo < 3 and 0 <= d < 3 and 0 <= t < 3
    post: _
    """
    if MONTHS[mo] == 2 and DAYS[d] == 31:
        return True
    h, mi, s = HMS[t]
    v = dt.datetime(YEARS[y], MONTHS[mo], DAYS[d], h, mi, s, 999999 if us else 0)
    part = _part()
    setattr(part, "{prop}", v)
    got = getattr(part, "{prop}")
    return got == v.replace(microsecond=0) and _children_ok(part._element)
'''
for _p in DATE_PROPS:
    gen(_DT_RT.format(prop=_p), globals())


@cond(timeout=120, encodes=ENC, bound="date properties: a non-datetime value (date, str, int, None) raises ValueError and adds nothing")
def datetime_rejects_other_types(p: int, kind: int) -> bool:
    """
    pre: 0 <= p < 3 and 0 <= kind < 4
    post: _
    """
    part = _part()
    bad = [dt.date(2020, 1, 1), "2020-01-01T00:00:00Z", 5, None][kind]
    try:
        setattr(part, DATE_PROPS[p], bad)
    except ValueError:
        return len(part._element) == 0
    return False


@cond(timeout=120, encodes=ENC,
      bound="a package with / without a core-properties relationship (symbolic fault boolean): first access returns the related "
            "part, creating and relating a default one when absent; the part is then reachable for saving")
def default_part_is_created_and_related(has: bool) -> bool:
    """
    post: _
    """
    pkg = Package(None)
    if has:
        existing = CorePropertiesPart.default(pkg)
        pkg.relate_to(existing, RT.CORE_PROPERTIES)
    cp = pkg.core_properties
    related = pkg.part_related_by(RT.CORE_PROPERTIES)
    ok = related is cp and cp in list(pkg.iter_parts()) and cp.partname == "/docProps/core.xml"
    if has:
        return ok and cp is existing
    return ok and cp.title == "PowerPoint Presentation" and cp.revision == 1 and cp.modified is not None and _children_ok(cp._element)
