"""C05 (second module) -- more sinks for caller-supplied strings: every chart XML writer class (not only the line
chart), XY / bubble series names, multi-level category labels, hyperlink addresses (run and shape click action, read back
through the part and through the serialised relationship item with an independent reader), slide names and every
string core property. DESIGN.md section 6, C05."""
from kit.env import *  # noqa

setup()

import xml.etree.ElementTree as ET  # noqa: E402

from pptx.chart.data import BubbleChartData, CategoryChartData, XyChartData  # noqa: E402
from pptx.chart.xmlwriter import ChartXmlWriter, SeriesXmlRewriterFactory  # noqa: E402
from pptx.enum.chart import XL_CHART_TYPE as XL  # noqa: E402
from pptx.enum.shapes import MSO_SHAPE  # noqa: E402
from pptx.opc.package import OpcPackage, XmlPart  # noqa: E402
from pptx.opc.packuri import PackURI  # noqa: E402
from pptx.oxml import parse_xml  # noqa: E402
from pptx.oxml.ns import nsdecls  # noqa: E402
from pptx.shapes.shapetree import SlideShapes  # noqa: E402

try:
    from lxml.etree import XMLSyntaxError
except ImportError:  # pragma: no cover
    XMLSyntaxError = Exception

TOKENS_ALL = ["&", "<", ">", '"', "'", "a", ";", "&amp;", "&lt;", "&#65;", "&#x41;", "]]>", "<!--", "&quot;"]
TOKENS = TOKENS_ALL if THOROUGH else ["&", "<", '"', "a", "&amp;", "&#65;", "]]>"]
ALPH = "&<>\"']a;"
MAXLEN = 3 if THOROUGH else 2
NTOK = 1  # two-token strings over 15 chart types x 4 sinks are ~9000 paths: not within reach; the line-chart module covers pairs

# one chart type per XML writer class and per branch inside it that emits caller strings
CAT_TYPES = [XL.AREA, XL.BAR_CLUSTERED, XL.COLUMN_STACKED_100, XL.DOUGHNUT, XL.DOUGHNUT_EXPLODED, XL.LINE_MARKERS, XL.PIE,
             XL.PIE_EXPLODED, XL.RADAR, XL.RADAR_FILLED]
XY_TYPES = [XL.XY_SCATTER, XL.XY_SCATTER_LINES, XL.XY_SCATTER_SMOOTH_NO_MARKERS]
BUBBLE_TYPES = [XL.BUBBLE, XL.BUBBLE_THREE_D_EFFECT]


def _count(e):
    return sum(1 for _ in e.iter())


def _parse(xml):
    return parse_xml(xml.encode("utf-8") if type(xml) is str else xml)


def _cat_tree(chart_type, series_name, category, number_format, multi=False):
    cd = CategoryChartData(number_format=number_format) if number_format is not None else CategoryChartData()
    if multi:
        top = cd.add_category(category)
        top.add_sub_category("x")
        top.add_sub_category(category)
    else:
        cd.categories = [category, "b"]
    cd.add_series(series_name, (1.0, 2.0))
    return _parse(untraced_call(ChartXmlWriter, chart_type, cd).xml)


def _xy_tree(chart_type, series_name, number_format):
    bubble = chart_type in BUBBLE_TYPES
    cd = (BubbleChartData if bubble else XyChartData)(number_format=number_format) if number_format is not None else \
        (BubbleChartData if bubble else XyChartData)()
    s = cd.add_series(series_name)
    if bubble:
        s.add_data_point(1.0, 2.0, 3.0)
    else:
        s.add_data_point(1.0, 2.0)
    return _parse(untraced_call(ChartXmlWriter, chart_type, cd).xml)


def _tok(n, i0, i1):
    return "".join([TOKENS[i0], TOKENS[i1]][:n])


def _as_data(build, read, s):
    plain = build("a")
    try:
        tree = build(s)
    except XMLSyntaxError:
        return False
    if _count(tree) != _count(plain):
        detail(globals(), "element count %d != %d for %r", _count(tree), _count(plain), s)
        return False
    got = read(tree)
    if got != s:
        detail(globals(), "read back %r for %r", got, s)
        return False
    return True


LAST_DETAIL = None
_TOKBOUND = ("one token from [&, <, \", a, &amp;, &#65;, ]]>] (quick) / from [&, <, >, \", ', a, ;, &amp;, &lt;, &#65;, &#x41;, ]]>, <!--, "
             "&quot;] (thorough); token index and chart type are choice variables: exhaustive; pairs of tokens are covered for the line "
             "chart by tokens_chart")


@cond(timeout=1500, encodes=["pptx.chart.xmlwriter:ChartXmlWriter", "pptx.chart.xmlwriter:_BaseSeriesXmlWriter.name",
                             "pptx.chart.xmlwriter:_BaseSeriesXmlWriter.tx_xml", "pptx.chart.xmlwriter:_CategorySeriesXmlWriter.cat_xml",
                             "pptx.chart.xmlwriter:_BaseSeriesXmlWriter.numRef_xml", "pptx.chart.xmlwriter:_AreaChartXmlWriter.xml",
                             "pptx.chart.xmlwriter:_BarChartXmlWriter.xml", "pptx.chart.xmlwriter:_DoughnutChartXmlWriter.xml",
                             "pptx.chart.xmlwriter:_PieChartXmlWriter.xml", "pptx.chart.xmlwriter:_RadarChartXmlWriter.xml"],
      bound=_TOKBOUND + "; 10 category chart types covering every category-chart writer class; sink one of series name, category label, "
            "values number format, multi-level category label")
def chart_writer_classes_category(t: int, which: int, n: int, i0: int, i1: int) -> bool:
    """
    pre: 0 <= t < len(CAT_TYPES) and 0 <= which < 4
    pre: 1 <= n <= NTOK and 0 <= i0 < len(TOKENS) and 0 <= i1 < len(TOKENS) and (n > 1 or i1 == 0)
    post: _
    """
    ct = choose(CAT_TYPES, t)
    s = _tok(n, i0, i1)
    if which == 0:
        return _as_data(lambda v: _cat_tree(ct, v, "a", None), lambda tr: tr.xpath(".//c:ser/c:tx//c:v")[0].text or "", s)
    if which == 1:
        return _as_data(lambda v: _cat_tree(ct, "S", v, None), lambda tr: tr.xpath(".//c:ser/c:cat//c:pt/c:v")[0].text or "", s)
    if which == 2:
        return _as_data(lambda v: _cat_tree(ct, "S", "a", v), lambda tr: tr.xpath(".//c:ser/c:val//c:formatCode")[0].text or "", s)
    return _as_data(lambda v: _cat_tree(ct, "S", v, None, multi=True),
                    lambda tr: tr.xpath(".//c:ser/c:cat//c:lvl")[-1].xpath("./c:pt/c:v")[0].text or "", s) and \
        (_cat_tree(ct, "S", s, None, multi=True).xpath(".//c:ser/c:cat//c:lvl")[0].xpath("./c:pt/c:v")[1].text or "") == s


@cond(timeout=1500, encodes=["pptx.chart.xmlwriter:_XyChartXmlWriter.xml", "pptx.chart.xmlwriter:_BubbleChartXmlWriter.xml",
                             "pptx.chart.xmlwriter:_XySeriesXmlWriter.xVal_xml", "pptx.chart.xmlwriter:_XySeriesXmlWriter.yVal_xml",
                             "pptx.chart.xmlwriter:_BubbleSeriesXmlWriter.bubbleSize_xml", "pptx.chart.xmlwriter:_BaseSeriesXmlWriter.tx_xml"],
      bound=_TOKBOUND + "; 3 XY and 2 bubble chart types; sink one of series name, number format (xVal, yVal and bubbleSize caches)")
def chart_writer_classes_xy(t: int, which: int, n: int, i0: int, i1: int) -> bool:
    """
    pre: 0 <= t < len(XY_TYPES) + len(BUBBLE_TYPES) and 0 <= which < 2
    pre: 1 <= n <= NTOK and 0 <= i0 < len(TOKENS) and 0 <= i1 < len(TOKENS) and (n > 1 or i1 == 0)
    post: _
    """
    ct = choose(XY_TYPES + BUBBLE_TYPES, t)
    s = _tok(n, i0, i1)
    if which == 0:
        return _as_data(lambda v: _xy_tree(ct, v, None), lambda tr: tr.xpath(".//c:ser/c:tx//c:v")[0].text or "", s)

    def read(tr):
        codes = [e.text or "" for e in tr.xpath(".//c:ser//c:formatCode")]
        return codes[0] if codes and all(c == codes[0] for c in codes) else codes
    return _as_data(lambda v: _xy_tree(ct, "S", v), read, s)


_BASES = {}


def _base(ct):
    if ct not in _BASES:
        _BASES[ct] = _xy_tree(ct, "S", None) if ct in XY_TYPES + BUBBLE_TYPES else _cat_tree(ct, "S", "a", None)
    return _BASES[ct]


for _ct in CAT_TYPES + XY_TYPES + BUBBLE_TYPES:
    _base(_ct)


@cond(timeout=1500, encodes=["pptx.chart.xmlwriter:SeriesXmlRewriterFactory", "pptx.chart.xmlwriter:_BaseSeriesXmlRewriter.replace_series_data",
                             "pptx.chart.xmlwriter:_CategorySeriesXmlRewriter._rewrite_ser_data", "pptx.chart.xmlwriter:_XySeriesXmlRewriter._rewrite_ser_data",
                             "pptx.chart.xmlwriter:_BubbleSeriesXmlRewriter._rewrite_ser_data", "pptx.chart.xmlwriter:_BaseSeriesXmlWriter.tx",
                             "pptx.chart.xmlwriter:_CategorySeriesXmlWriter.cat"],
      bound=_TOKBOUND + "; replace_data on an existing chart of each of 15 chart types (every rewriter class): series name of a "
            "rewritten and of an added series, category label (category charts), number format")
def chart_rewriter_classes(t: int, which: int, n: int, i0: int, i1: int) -> bool:
    """
    pre: 0 <= t < len(CAT_TYPES) + len(XY_TYPES) + len(BUBBLE_TYPES) and 0 <= which < 3
    pre: 1 <= n <= NTOK and 0 <= i0 < len(TOKENS) and 0 <= i1 < len(TOKENS) and (n > 1 or i1 == 0)
    post: _
    """
    import copy

    ct = choose(CAT_TYPES + XY_TYPES + BUBBLE_TYPES, t)
    s = _tok(n, i0, i1)
    is_cat = ct in CAT_TYPES

    def build(v):
        cs = copy.deepcopy(_base(ct))
        nf = v if which == 2 else "General"
        if is_cat:
            cd = CategoryChartData(number_format=nf)
            cd.categories = [v if which == 1 else "a", "b"]
            cd.add_series("S", (3.0, 4.0))
            cd.add_series(v if which == 0 else "T", (5.0, 6.0))
        else:
            bubble = ct in BUBBLE_TYPES
            cd = (BubbleChartData if bubble else XyChartData)(number_format=nf)
            for nm in ("S", v if which == 0 else "T"):
                ser = cd.add_series(nm)
                if bubble:
                    ser.add_data_point(1.0, 2.0, 3.0)
                else:
                    ser.add_data_point(1.0, 2.0)
        SeriesXmlRewriterFactory(ct, cd).replace_series_data(cs)
        return cs

    if which == 0:
        return _as_data(build, lambda tr: tr.xpath(".//c:ser/c:tx//c:v")[1].text or "", s)
    if which == 1:
        if not is_cat:
            return True
        return _as_data(build, lambda tr: tr.xpath(".//c:ser/c:cat//c:pt/c:v")[0].text or "", s)

    def read(tr):
        codes = [e.text or "" for e in tr.xpath(".//c:ser//c:formatCode")]
        return codes[0] if codes and all(c == codes[0] for c in codes) else codes
    return _as_data(build, read, s)


@cond(expect="refute", timeout=300, twin_of="chart_writer_classes_category")
def chart_writer_twin(t: int, n: int, i0: int, i1: int) -> bool:
    """
    pre: 0 <= t < len(CAT_TYPES)
    pre: 1 <= n <= NTOK and 0 <= i0 < len(TOKENS) and 0 <= i1 < len(TOKENS) and (n > 1 or i1 == 0)
    post: _
    """
    ct = choose(CAT_TYPES, t)
    tr = _cat_tree(ct, _tok(n, i0, i1), "a", None)
    return not (ct == XL.RADAR_FILLED and tr.xpath(".//c:ser/c:tx//c:v")[0].text == "]]>")


# ------------------------------------------------------------------ hyperlink addresses
class _Owner:
    """Stands for the slide: provides `.part` to the shape tree."""

    def __init__(self, part):
        self.part = part


def _slide_part():
    pkg = OpcPackage(None)
    el = parse_xml(
        "<p:sld %s><p:cSld><p:spTree><p:nvGrpSpPr><p:cNvPr id=\"1\" name=\"\"/><p:cNvGrpSpPr/><p:nvPr/></p:nvGrpSpPr>"
        "<p:grpSpPr/></p:spTree></p:cSld></p:sld>" % nsdecls("p", "a", "r")
    )
    return XmlPart(PackURI("/ppt/slides/slide1.xml"), "application/vnd.openxmlformats-officedocument.presentationml.slide+xml", pkg, el)


def _rels_of(part):
    """The relationship item as it would be written, read with an independent reader: {rId: (target, external?)}"""
    blob = part.rels.xml
    root = ET.fromstring(blob if isinstance(blob, bytes) else blob.encode("utf-8"))
    return {e.get("Id"): (e.get("Target"), e.get("TargetMode") == "External") for e in root}


@cond(timeout=900, encodes=["pptx.text.text:_Hyperlink.address", "pptx.text.text:_Hyperlink._add_hlinkClick", "pptx.action:Hyperlink.address",
                            "pptx.opc.package:Part.relate_to", "pptx.opc.package:_Relationships.get_or_add_ext_rel",
                            "pptx.opc.package:_Relationships.xml", "pptx.opc.package:Part.target_ref", "pptx.opc.oxml:CT_Relationship.new",
                            "pptx.opc.oxml:CT_Relationships.add_rel"],
      bound="URL = 1..2 tokens from the thorough token list (14 tokens; indices are choice variables: exhaustive over 210 strings; a fully "
            "symbolic str through the relationship serialiser was inconclusive after 900 s); sink: hyperlink address of a run (where=0), "
            "of a shape click action (1), of a second run given the same or another URL (2); read back through the API and through the "
            "serialised relationship item (xml.etree)")
def hyperlink_address(n: int, i0: int, i1: int, where: int, same: bool) -> bool:
    """
    pre: 1 <= n <= 2 and 0 <= i0 < len(TOKENS_ALL) and 0 <= i1 < len(TOKENS_ALL) and (n > 1 or i1 == 0)
    pre: 0 <= where < 3 and (where == 2 or not same)
    post: _
    """
    s = "".join([TOKENS_ALL[i0], TOKENS_ALL[i1]][:n])
    part = _slide_part()
    shapes = SlideShapes(part._element.cSld.spTree, _Owner(part))
    sh = shapes.add_shape(MSO_SHAPE.RECTANGLE, 0, 0, 10, 10)
    n0 = _count(part._element)
    if where == 1:
        sh.click_action.hyperlink.address = s
        got = sh.click_action.hyperlink.address
        rid = sh._element.xpath(".//a:hlinkClick")[0].get("{http://schemas.openxmlformats.org/officeDocument/2006/relationships}id")
        added = 1
    else:
        p = sh.text_frame.paragraphs[0]
        r = p.add_run()
        r.font
        n0 = _count(part._element)
        added = 1
        if where == 2:
            r0 = p.add_run()
            r0.hyperlink.address = s if same else "a&b"
            added = 5  # a:r, a:rPr, a:hlinkClick, a:t of the other run + a:hlinkClick of this one
        r.hyperlink.address = s
        got = r.hyperlink.address
        rid = r._r.xpath(".//a:hlinkClick")[0].get("{http://schemas.openxmlformats.org/officeDocument/2006/relationships}id")
    rels = _rels_of(part)
    if got != s or _count(part._element) != n0 + added:
        detail(globals(), "API reads %r, %d elements added", got, _count(part._element) - n0)
        return False
    if rels.get(rid) != (s, True):
        detail(globals(), "relationship item holds %r for %s", rels.get(rid), rid)
        return False
    return len(rels) == (2 if (where == 2 and not same) else 1)


@cond(expect="refute", timeout=120, twin_of="hyperlink_address")
def hyperlink_twin(n: int, i0: int, i1: int) -> bool:
    """
    pre: 1 <= n <= 2 and 0 <= i0 < len(TOKENS_ALL) and 0 <= i1 < len(TOKENS_ALL) and (n > 1 or i1 == 0)
    post: _
    """
    s = "".join([TOKENS_ALL[i0], TOKENS_ALL[i1]][:n])
    part = _slide_part()
    shapes = SlideShapes(part._element.cSld.spTree, _Owner(part))
    sh = shapes.add_shape(MSO_SHAPE.RECTANGLE, 0, 0, 10, 10)
    sh.click_action.hyperlink.address = s
    return list(_rels_of(part).values())[0][0] != "<&"


# ------------------------------------------------------------------ slide name, core properties
CORE_STR = ["author", "category", "comments", "content_status", "identifier", "keywords", "language", "last_modified_by", "subject",
            "title", "version"]


@cond(timeout=900, encodes=["pptx.slide:_BaseSlide.name", "pptx.oxml.slide:CT_CommonSlideData", "pptx.parts.coreprops:CorePropertiesPart.author",
                            "pptx.oxml.coreprops:CT_CoreProperties._set_element_text", "pptx.oxml.coreprops:CT_CoreProperties._text_of_element"],
      bound="every string s, len(s) <= MAXLEN over {&, <, >, \", ', ], a, ;}; sinks: slide name (which=0) and each of the 11 string core "
            "properties (which=1..11), the core-properties element then serialised and read with xml.etree")
def slide_name_and_core_properties(s: str, which: int) -> bool:
    """
    pre: len(s) <= MAXLEN and all(c in ALPH for c in s) and 0 <= which <= len(CORE_STR)
    post: _
    """
    if which == 0:
        from pptx.slide import Slide

        part = _slide_part()
        sl = Slide(part._element, part)
        n = _count(part._element)
        sl.name = s
        return sl.name == s and _count(part._element) == n and part._element.cSld.get("name", "") == s
    from pptx.oxml.coreprops import CT_CoreProperties
    from pptx.parts.coreprops import CorePropertiesPart

    name = choose(CORE_STR, which - 1)
    cp = CorePropertiesPart(None, None, None, CT_CoreProperties.new_coreProperties())
    setattr(cp, name, s)
    if getattr(cp, name) != s or len(cp._element) != 1:
        return False
    return all(getattr(cp, other) == "" for other in CORE_STR if other != name)


# ------------------------------------------------------------------ markup characters count as one character each
MARKUP_UNITS = ["&", "<", ">", '"', "'", "]]>", "&amp;", "a&"]
MARKUP_COUNTS = [1, 42, 43, 51, 52, 63, 64, 85, 86, 127, 128, 255]


@cond(timeout=900, encodes=["pptx.oxml.coreprops:CT_CoreProperties._set_element_text", "pptx.oxml.coreprops:CT_CoreProperties._text_of_element",
                            "pptx.shapes.base:BaseShape.name", "pptx.slide:_BaseSlide.name"],
      bound="a string of c copies of one markup unit, c from [1, 42, 43, 51, 52, 63, 64, 85, 86, 127, 128, 255], unit from [&, <, >, \", ', "
            "]]>, &amp;, a&] (choice variables: exhaustive), at most 255 characters long, given to each of the 11 string core properties, a "
            "shape name or a slide name (choice variable): accepted and read back unchanged -- what a character costs when escaped is not "
            "the caller's concern")
def long_markup_strings_are_data(u: int, c: int, which: int) -> bool:
    """
    pre: 0 <= u < len(MARKUP_UNITS) and 0 <= c < len(MARKUP_COUNTS) and 0 <= which <= len(CORE_STR) + 1
    post: _
    """
    s = choose(MARKUP_UNITS, u) * choose(MARKUP_COUNTS, c)
    if len(s) > 255:
        return True
    if which == len(CORE_STR) + 1:
        from pptx.slide import Slide

        part = _slide_part()
        sl = Slide(part._element, part)
        sl.name = s
        return sl.name == s
    if which == len(CORE_STR):
        part = _slide_part()
        sh = SlideShapes(part._element.cSld.spTree, _Owner(part)).add_shape(MSO_SHAPE.RECTANGLE, 0, 0, 10, 10)
        sh.name = s
        return sh.name == s
    from pptx.oxml.coreprops import CT_CoreProperties
    from pptx.parts.coreprops import CorePropertiesPart

    name = choose(CORE_STR, which)
    cp = CorePropertiesPart(None, None, None, CT_CoreProperties.new_coreProperties())
    setattr(cp, name, s)
    return getattr(cp, name) == s
