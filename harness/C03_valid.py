"""C03 -- every XML part written is valid PresentationML/DrawingML, after any operations. DESIGN.md section 6, C03.
Symbolic operation sequences (the solver chooses the operations) over one object of each family, with the content models
and simple types of the ISO/IEC 29500-4 transitional schemas (kit/xsdmodel) as oracle after every step."""
from kit.env import *  # noqa

setup()

import copy  # noqa: E402

from kit import xsdmodel as X  # noqa: E402
from pptx.chart.chart import Chart  # noqa: E402
from pptx.chart.data import CategoryChartData  # noqa: E402
from pptx.chart.xmlwriter import ChartXmlWriter  # noqa: E402
from pptx.dml.color import RGBColor  # noqa: E402
from pptx.enum.chart import XL_CHART_TYPE, XL_LEGEND_POSITION, XL_TICK_MARK  # noqa: E402
from pptx.enum.dml import MSO_LINE, MSO_PATTERN, MSO_THEME_COLOR  # noqa: E402
from pptx.enum.shapes import MSO_CONNECTOR, MSO_SHAPE  # noqa: E402
from pptx.enum.text import MSO_ANCHOR, MSO_AUTO_SIZE, PP_ALIGN  # noqa: E402
from pptx.oxml import parse_xml  # noqa: E402
from pptx.oxml.ns import nsdecls  # noqa: E402
from pptx.shapes.shapetree import SlideShapes  # noqa: E402
from pptx.util import Emu, Pt  # noqa: E402

S = X.schemas()
X.precompile_all(S)
LAST_DETAIL = None
PML = "http://schemas.openxmlformats.org/presentationml/2006/main"
ENC = ["pptx.oxml.xmlchemy:BaseOxmlElement.insert_element_before", "pptx.oxml.xmlchemy:_BaseChildElement._add_adder",
       "pptx.oxml.xmlchemy:OptionalAttribute._setter", "pptx.text.text:TextFrame.add_paragraph", "pptx.text.text:_Paragraph.add_run",
       "pptx.text.text:_Paragraph.add_line_break", "pptx.text.text:_Paragraph.line_spacing", "pptx.text.text:Font.size",
       "pptx.text.text:TextFrame.auto_size", "pptx.dml.fill:FillFormat.solid", "pptx.dml.fill:FillFormat.gradient",
       "pptx.dml.fill:FillFormat.patterned", "pptx.dml.fill:FillFormat.background", "pptx.dml.line:LineFormat.width",
       "pptx.dml.line:LineFormat.dash_style", "pptx.dml.effect:ShadowFormat.inherit", "pptx.shapes.base:BaseShape.rotation",
       "pptx.table:_Cell.merge", "pptx.table:_Cell.split", "pptx.table:_Cell.fill", "pptx.table:Table.first_row",
       "pptx.chart.chart:Chart.chart_style", "pptx.chart.axis:_BaseAxis.major_unit", "pptx.chart.axis:_BaseAxis.has_major_gridlines",
       "pptx.chart.chart:Chart.has_legend", "pptx.chart.plot:_BasePlot.has_data_labels", "pptx.shapes.picture:_BasePicture.crop_left"]


def _sptree():
    return parse_xml(
        "<p:spTree %s><p:nvGrpSpPr><p:cNvPr id=\"1\" name=\"\"/><p:cNvGrpSpPr/><p:nvPr/></p:nvGrpSpPr>"
        "<p:grpSpPr/></p:spTree>" % nsdecls("p", "a", "r")
    )


_SH = SlideShapes(_sptree(), None)
_SH.add_shape(MSO_SHAPE.ROUNDED_RECTANGLE, 10, 20, 300, 400)
_SH.add_table(2, 2, 0, 0, 2000, 1000)
_SH.add_connector(MSO_CONNECTOR.STRAIGHT, 0, 0, 10, 10)
_TEMPLATE = _SH._spTree


def _errors(elm, type_name, ns=PML):
    errs = []
    X.validate_element(S, elm, (ns, type_name), errs)
    return [e for e in errs if not excluded("xml_valid", error=e)]


def _run_ops(ops, apply, root_of, type_name, ns=PML, names=None):
    """Apply each op; after every step (whether it returned or raised a documented exception) the element must validate."""
    state = {}
    root = root_of(state)
    first = _errors(root, type_name, ns)
    if first:
        detail(globals(), "initial state invalid (harness): %s", first[:2])
        return False
    for k, op in enumerate(ops):
        try:
            apply(state, op)
        except (TypeError, ValueError, IndexError):
            pass
        errs = _errors(root, type_name, ns)
        if errs:
            detail(globals(), "after %s: %s", [names[o] if names else o for o in ops[: k + 1]], errs[:2])
            return False
    return True


# ------------------------------------------------------------------ text body + shape properties (one autoshape)
TEXT_OPS = ["add_paragraph", "add_run", "add_line_break", "alignment=CENTER", "level=3", "line_spacing=1.5", "line_spacing=Pt(12)",
            "space_before=Pt(6)", "run.font.size=Pt(18)", "run.font.bold", "run.font.name", "run.font.color.rgb", "clear()",
            "auto_size=SHAPE_TO_FIT_TEXT", "auto_size=TEXT_TO_FIT_SHAPE", "margin_left", "word_wrap=False", "text='a\\nb\\vc'",
            "paragraph.text='x\\vy'", "font.size=Pt(5000) [rejected]", "level=9 [rejected]", "space_after=Emu(10**9) [rejected]",
            "paragraph.font.italic", "vertical_anchor=MIDDLE", "line_spacing=None"]


def _shape_root(state):
    spTree = copy.deepcopy(_TEMPLATE)
    shapes = SlideShapes(spTree, None)
    state["shape"] = list(shapes)[0]
    return state["shape"]._element


def _text_apply(state, op):
    sh = state["shape"]
    tf = sh.text_frame
    p = tf.paragraphs[-1]
    if op == 0:
        tf.add_paragraph()
    elif op == 1:
        p.add_run().text = "r"
    elif op == 2:
        p.add_line_break()
    elif op == 3:
        p.alignment = PP_ALIGN.CENTER
    elif op == 4:
        p.level = 3
    elif op == 5:
        p.line_spacing = 1.5
    elif op == 6:
        p.line_spacing = Pt(12)
    elif op == 7:
        p.space_before = Pt(6)
    elif op in (8, 9, 10, 11):
        r = p.runs[-1] if p.runs else p.add_run()
        if op == 8:
            r.font.size = Pt(18)
        elif op == 9:
            r.font.bold = True
        elif op == 10:
            r.font.name = "Arial"
        else:
            r.font.color.rgb = RGBColor(1, 2, 3)
    elif op == 12:
        tf.clear()
    elif op == 13:
        tf.auto_size = MSO_AUTO_SIZE.SHAPE_TO_FIT_TEXT
    elif op == 14:
        tf.auto_size = MSO_AUTO_SIZE.TEXT_TO_FIT_SHAPE
    elif op == 15:
        tf.margin_left = Emu(1234)
    elif op == 16:
        tf.word_wrap = False
    elif op == 17:
        tf.text = "a\nb\x0bc"
    elif op == 18:
        p.text = "x\x0by"
    elif op == 19:
        (p.runs[-1] if p.runs else p.add_run()).font.size = Pt(5000)
    elif op == 20:
        p.level = 9
    elif op == 21:
        p.space_after = Emu(10**9)
    elif op == 22:
        p.font.italic = True
    elif op == 23:
        tf.vertical_anchor = MSO_ANCHOR.MIDDLE
    elif op == 24:
        p.line_spacing = None


SHAPE_OPS = ["fill.solid()", "fill.fore_color.rgb", "fill.fore_color.theme_color", "fill.gradient()", "fill.gradient_angle=45", "fill.patterned()",
             "fill.background()", "line.width=Pt(2)", "line.dash_style=DASH", "line.color.rgb", "line.fill.background()", "rotation=45.0",
             "shadow.inherit=False", "shadow.inherit=True", "name='n'", "line.width=Emu(10**9) [rejected]", "adjustments[0]=0.3",
             "left/top/width/height", "line.dash_style=None", "click_action.hyperlink? (skipped: needs a part)"]


def _shape_apply(state, op):
    sh = state["shape"]
    if op == 0:
        sh.fill.solid()
    elif op == 1:
        sh.fill.solid()
        sh.fill.fore_color.rgb = RGBColor(9, 8, 7)
    elif op == 2:
        sh.fill.solid()
        sh.fill.fore_color.theme_color = MSO_THEME_COLOR.ACCENT_1
    elif op == 3:
        sh.fill.gradient()
    elif op == 4:
        sh.fill.gradient()
        sh.fill.gradient_angle = 45
    elif op == 5:
        sh.fill.patterned()
        sh.fill.pattern = MSO_PATTERN.CROSS
    elif op == 6:
        sh.fill.background()
    elif op == 7:
        sh.line.width = Pt(2)
    elif op == 8:
        sh.line.dash_style = MSO_LINE.DASH
    elif op == 9:
        sh.line.color.rgb = RGBColor(1, 1, 1)
    elif op == 10:
        sh.line.fill.background()
    elif op == 11:
        sh.rotation = 45.0
    elif op == 12:
        sh.shadow.inherit = False
    elif op == 13:
        sh.shadow.inherit = True
    elif op == 14:
        sh.name = "n"
    elif op == 15:
        sh.line.width = Emu(10**9)
    elif op == 16:
        sh.adjustments[0] = 0.3
    elif op == 17:
        sh.left, sh.top, sh.width, sh.height = 1, 2, 3, 4
    elif op == 18:
        sh.line.dash_style = None


_SEQ = '''
@cond(timeout=3000, encodes=ENC,
      bound="{family}: operation sequences of length {n} (2 quick / 3 thorough, third operation every third one), first operation = '{first}' (fixed in this split), the "
            "others any of the {count} operations of the family (symbolic indices; arguments fixed per operation, including rejected "
            "out-of-domain values): after every step the element validates against {type_name} (content models of all descendants, "
            "attribute lexical spaces, required attributes)")
def {fam}_sequence_{i}({params}) -> bool:
    """
    pre: {pre}
    post: _
    """
    return _run_ops([{i}, {args}], {apply}, {root}, "{type_name}", {ns}, {names})
'''
NSEQ = 3 if THOROUGH else 2


def _gen_family(fam, family, names, apply, root, type_name, ns="PML", skip=()):
    n_extra = NSEQ - 1
    params = ", ".join("o%d: int" % k for k in range(n_extra))
    pre = " and ".join("0 <= o%d < %d" % (k, len(names)) for k in range(n_extra))
    if n_extra == 2:
        pre += " and o1 % 3 == 0"  # thorough: the third operation ranges over every third one (keeps a condition under ~15 min)
    args = ", ".join("o%d" % k for k in range(n_extra))
    for i, first in enumerate(names):
        if i in skip:
            continue
        gen(_SEQ.format(fam=fam, family=family, n=NSEQ, first=first.replace("'", "").replace("\\\\", "/"), count=len(names), i=i, params=params, pre=pre, args=args,
                        apply=apply, root=root, type_name=type_name, ns=ns, names=fam.upper() + "_OPS"), globals())


_gen_family("text", "text body of an autoshape", TEXT_OPS, "_text_apply", "_shape_root", "CT_Shape")
_gen_family("shape", "fill / line / shadow / geometry of an autoshape", SHAPE_OPS, "_shape_apply", "_shape_root", "CT_Shape", skip=(19,))
SHAPE_OPS_N = len(SHAPE_OPS) - 1


# ------------------------------------------------------------------ table
TABLE_OPS = ["cell(0,0).fill.solid()", "cell margins", "cell.vertical_anchor", "merge (0,0)-(1,1)", "split (0,0)", "cell.text", "merge (0,1)-(1,1)",
             "merge overlapping [rejected]", "first_row=False", "horz_banding=False", "column width", "row height", "cell.fill.background()"]


def _table_root(state):
    spTree = copy.deepcopy(_TEMPLATE)
    gf = list(SlideShapes(spTree, None))[1]
    state["table"] = gf.table
    return gf._element


def _table_apply(state, op):
    t = state["table"]
    c = t.cell(0, 0)
    if op == 0:
        c.fill.solid()
        c.fill.fore_color.rgb = RGBColor(1, 2, 3)
    elif op == 1:
        c.margin_left = c.margin_top = Emu(100)
    elif op == 2:
        c.vertical_anchor = MSO_ANCHOR.MIDDLE
    elif op == 3:
        c.merge(t.cell(1, 1))
    elif op == 4:
        c.split()
    elif op == 5:
        c.text = "a\nb"
    elif op == 6:
        t.cell(0, 1).merge(t.cell(1, 1))
    elif op == 7:
        t.cell(1, 0).merge(t.cell(1, 1))
    elif op == 8:
        t.first_row = False
    elif op == 9:
        t.horz_banding = False
    elif op == 10:
        t.columns[0].width = Emu(777)
    elif op == 11:
        t.rows[1].height = Emu(555)
    elif op == 12:
        c.fill.background()


_gen_family("table", "table in a graphic frame", TABLE_OPS, "_table_apply", "_table_root", "CT_GraphicalObjectFrame")

# ------------------------------------------------------------------ chart formatting objects
_cd = CategoryChartData()
_cd.categories = ["a", "b"]
_cd.add_series("S1", (1.0, 2.0))
_CHARTSPACE = parse_xml(ChartXmlWriter(XL_CHART_TYPE.LINE, _cd).xml.encode("utf-8"))
CHART_NS = "http://schemas.openxmlformats.org/drawingml/2006/chart"
CHART_OPS = ["chart_style=10", "chart_style=49 [rejected]", "value_axis.major_unit=5", "value_axis.major_unit=-1 [rejected]", "has_legend=False",
             "has_legend=True; position=BOTTOM", "value_axis.has_major_gridlines toggle", "category_axis.major_tick_mark=CROSS",
             "plot.has_data_labels=True; show_value", "value_axis.maximum_scale=10; minimum_scale=None", "has_title toggle",
             "series.smooth=True", "value_axis.minor_unit=0 [rejected]", "category_axis.visible=False", "series.format.line.width"]


def _chart_root(state):
    cs = copy.deepcopy(_CHARTSPACE)
    state["chart"] = Chart(cs, None)
    return cs


def _chart_apply(state, op):
    ch = state["chart"]
    if op == 0:
        ch.chart_style = 10
    elif op == 1:
        ch.chart_style = 49
    elif op == 2:
        ch.value_axis.major_unit = 5
    elif op == 3:
        ch.value_axis.major_unit = -1
    elif op == 4:
        ch.has_legend = False
    elif op == 5:
        ch.has_legend = True
        ch.legend.position = XL_LEGEND_POSITION.BOTTOM
    elif op == 6:
        ch.value_axis.has_major_gridlines = not ch.value_axis.has_major_gridlines
    elif op == 7:
        ch.category_axis.major_tick_mark = XL_TICK_MARK.CROSS
    elif op == 8:
        ch.plots[0].has_data_labels = True
        ch.plots[0].data_labels.show_value = True
    elif op == 9:
        ch.value_axis.maximum_scale = 10
        ch.value_axis.minimum_scale = None
    elif op == 10:
        ch.has_title = not ch.has_title
    elif op == 11:
        ch.plots[0].series[0].smooth = True
    elif op == 12:
        ch.value_axis.minor_unit = 0
    elif op == 13:
        ch.category_axis.visible = False
    elif op == 14:
        ch.plots[0].series[0].format.line.width = Pt(1)


def _chart_errors_ok():
    return True


_gen_family("chart", "chart formatting objects of a line chart", CHART_OPS, "_chart_apply", "_chart_root", "CT_ChartSpace", ns="CHART_NS")


# ------------------------------------------------------------------ slide background (p:bg holds exactly one of p:bgPr / p:bgRef)
BG_KINDS = ["", "<p:bg><p:bgPr><a:solidFill><a:srgbClr val=\"FF0000\"/></a:solidFill><a:effectLst/></p:bgPr></p:bg>",
            "<p:bg bwMode=\"white\"><p:bgRef idx=\"1001\"><a:schemeClr val=\"bg1\"/></p:bgRef></p:bg>"]
BG_OPS = ["read background.fill", "fill.solid()", "fill.background()", "fill.gradient()", "fill.patterned()", "read follow_master_background"]


@cond(timeout=600, encodes=["pptx.slide:_Background.fill", "pptx.oxml.slide:CT_CommonSlideData.get_or_add_bgPr", "pptx.oxml.slide:CT_Background.add_noFill_bgPr",
                            "pptx.slide:Slide.follow_master_background", "pptx.dml.fill:FillFormat.solid", "pptx.dml.fill:FillFormat.gradient"],
      bound="p:cSld with no background, a p:bgPr background or a p:bgRef background (as slide masters and styled decks have); sequences of 2 "
            "operations out of 6 (%s): after every step p:cSld validates against CT_CommonSlideData" % ", ".join(BG_OPS))
def background_sequence(kind: int, o0: int, o1: int) -> bool:
    """
    pre: 0 <= kind < len(BG_KINDS) and 0 <= o0 < len(BG_OPS) and 0 <= o1 < len(BG_OPS)
    post: _
    """
    from pptx.slide import Slide

    def root_of(state):
        sld = parse_xml(
            "<p:sld %s><p:cSld>%s<p:spTree><p:nvGrpSpPr><p:cNvPr id=\"1\" name=\"\"/><p:cNvGrpSpPr/><p:nvPr/></p:nvGrpSpPr>"
            "<p:grpSpPr/></p:spTree></p:cSld></p:sld>" % (nsdecls("p", "a", "r"), choose(BG_KINDS, kind)))
        state["slide"] = Slide(sld, None)
        return sld.cSld

    def apply(state, op):
        sl = state["slide"]
        if op == 0:
            sl.background.fill
        elif op == 1:
            sl.background.fill.solid()
        elif op == 2:
            sl.background.fill.background()
        elif op == 3:
            sl.background.fill.gradient()
        elif op == 4:
            sl.background.fill.patterned()
        else:
            sl.follow_master_background

    return _run_ops([o0, o1], apply, root_of, "CT_CommonSlideData", names=BG_OPS)


@cond(expect="refute", timeout=300, twin_of="shape_sequence_12")
def shape_twin(o0: int) -> bool:
    """
    pre: 0 <= o0 < len(SHAPE_OPS) - 1
    post: _
    """
    state = {}
    root = _shape_root(state)
    _shape_apply(state, 12)
    _shape_apply(state, o0)
    kids = [c.tag.split("}")[1] for c in root.spPr]
    # reach: an outline created on a shape that already carries an effect list
    return not ("effectLst" in kids and "ln" in kids and kids.index("ln") < kids.index("effectLst"))
