"""C05 -- caller-supplied strings are stored as data, never interpreted as markup. DESIGN.md section 6, C05.
Template sinks (strings formatted into XML text and parsed) run through pxml's skeleton parser: the literal skeleton is
parsed concretely, the symbolic run is scanned character by character in its context; a run that contains a character
the XML parser treats specially is realized and parsed concretely, so errors and structure changes are the real ones."""
from kit.env import *  # noqa

setup()

from pptx.chart.data import CategoryChartData  # noqa: E402
from pptx.chart.xmlwriter import ChartXmlWriter, SeriesXmlRewriterFactory  # noqa: E402
from pptx.enum.chart import XL_CHART_TYPE  # noqa: E402
from pptx.enum.shapes import MSO_SHAPE  # noqa: E402
from pptx.oxml import parse_xml  # noqa: E402
from pptx.oxml.ns import nsdecls  # noqa: E402
from pptx.oxml.shapes.graphfrm import CT_GraphicalObjectFrame  # noqa: E402
from pptx.oxml.shapes.picture import CT_Picture  # noqa: E402
from pptx.shapes.shapetree import SlideShapes  # noqa: E402

ALPH = "&<>\"']a;"
ALPHL = list(ALPH)
MAXLEN = 3 if THOROUGH else 2
BOUND = "every string s, len(s) <= MAXLEN (2 quick / 3 thorough) over the alphabet {&, <, >, \", ', ], a, ;}"
try:
    from lxml.etree import XMLSyntaxError
except ImportError:  # pragma: no cover
    XMLSyntaxError = Exception


def _count(e):
    return sum(1 for _ in e.iter())


def _stored_as_data(build, read):
    """build(s) must not raise, must give the same element count as for a plain string, and read(tree) must return s."""
    def check(s):
        plain = build("a")
        try:
            tree = build(s)
        except XMLSyntaxError:
            return False
        return _count(tree) == _count(plain) and read(tree) == s
    return check


def _pic(s):
    return CT_Picture.new_pic(7, "Picture 6", s, "rId3", 1, 2, 3, 4)


def _ph_pic(s):
    return CT_Picture.new_ph_pic(7, "Picture Placeholder 6", s, "rId3")


def _video(s):
    return CT_Picture.new_video_pic(7, s, "rId1", "rId2", "rId3", 1, 2, 3, 4)


def _ole(s):
    return CT_GraphicalObjectFrame.new_ole_object_graphicFrame(7, "Object 6", "rId2", s, "rId3", 1, 2, 3, 4, 5, 6)


SINKS = {
    "picture_descr": (_pic, lambda t: t.nvPicPr.cNvPr.get("descr"), ["pptx.oxml.shapes.picture:CT_Picture.new_pic"]),
    "placeholder_picture_descr": (_ph_pic, lambda t: t.nvPicPr.cNvPr.get("descr"), ["pptx.oxml.shapes.picture:CT_Picture.new_ph_pic"]),
    "movie_name": (_video, lambda t: t.nvPicPr.cNvPr.get("name"), ["pptx.oxml.shapes.picture:CT_Picture.new_video_pic"]),
    "ole_prog_id": (_ole, lambda t: t.xpath(".//p:oleObj")[0].get("progId"),
                    ["pptx.oxml.shapes.graphfrm:CT_GraphicalObjectFrame.new_ole_object_graphicFrame"]),
}

_SINK = '''
@cond(timeout=600, encodes={enc!r}, bound=BOUND + "; sink: {name}")
def sink_{name}(s: str) -> bool:
    """
    pre: len(s) <= MAXLEN and all(c in ALPH for c in s)
    pre: not excluded("sink_{name}", s=s)
    post: _
    """
    build, read, _ = SINKS["{name}"]
    return _stored_as_data(build, read)(s)
'''
for _n, (_b, _r, _e) in SINKS.items():
    gen(_SINK.format(name=_n, enc=_e), globals())


@cond(expect="refute", timeout=120, twin_of="sink_picture_descr")
def sink_twin(s: str) -> bool:
    """
    pre: len(s) <= MAXLEN and all(c in ALPH for c in s)
    post: _
    """
    try:
        t = _pic(s)
    except XMLSyntaxError:
        return True
    return t.nvPicPr.cNvPr.get("descr") != "&a"


# ------------------------------------------------------------------ chart text sinks
def _chart_tree(series_name, category, number_format):
    cd = CategoryChartData(number_format=number_format) if number_format is not None else CategoryChartData()
    cd.categories = [category, "b"]
    cd.add_series(series_name, (1.0, 2.0))
    xml = untraced_call(ChartXmlWriter, XL_CHART_TYPE.LINE, cd).xml
    return parse_xml(xml.encode("utf-8") if type(xml) is str else xml)


_CHART = '''
@cond(timeout=900, encodes=["pptx.chart.xmlwriter:_LineChartXmlWriter.xml", "pptx.chart.xmlwriter:_BaseSeriesXmlWriter.name",
                            "pptx.chart.xmlwriter:_CategorySeriesXmlWriter.cat_xml", "pptx.chart.xmlwriter:_BaseSeriesXmlWriter.numRef_xml"],
      bound=BOUND + "; sink: chart {what} (line chart, generated XML); characters are choice variables (index into the alphabet): exhaustive over the strings")
def chart_{what}(n: int, i0: int, i1: int, i2: int) -> bool:
    """
    pre: 0 <= n <= MAXLEN and 0 <= i0 < len(ALPH) and 0 <= i1 < len(ALPH) and 0 <= i2 < len(ALPH)
    pre: (n > 2 or i2 == 0) and (n > 1 or i1 == 0) and (n > 0 or i0 == 0)
    post: _
    """
    s = "".join([ALPHL[i0], ALPHL[i1], ALPHL[i2]][:n])  # concrete per path: the writers' nested str.format calls explode symbolically

    def build(v):
        return _chart_tree({args})
    return _stored_as_data(build, lambda t: {read})(s)
'''
gen(_CHART.format(what="series_name", args='v, "a", None', read='t.xpath(".//c:ser/c:tx//c:v")[0].text or ""'), globals())
gen(_CHART.format(what="category_label", args='"S", v, None', read='t.xpath(".//c:ser/c:cat//c:pt/c:v")[0].text or ""'), globals())
gen(_CHART.format(what="number_format", args='"S", "a", v', read='t.xpath(".//c:ser/c:val//c:formatCode")[0].text or ""'), globals())



def _date_chart_tree(number_format):
    import datetime

    cd = CategoryChartData(number_format="General")
    cd.categories = [datetime.date(2020, 1, 1), datetime.date(2020, 1, 2)]
    cd.categories.number_format = number_format
    cd.add_series("S", (1.0, 2.0))
    xml = untraced_call(ChartXmlWriter, XL_CHART_TYPE.LINE, cd).xml
    return parse_xml(xml.encode("utf-8") if type(xml) is str else xml)


@cond(timeout=900, encodes=["pptx.chart.xmlwriter:_LineChartXmlWriter._cat_ax_xml"],
      bound=BOUND + "; sink: category number format of a date-axis line chart (c:dateAx/c:numFmt/@formatCode, attribute context)")
def chart_date_axis_number_format(n: int, i0: int, i1: int, i2: int) -> bool:
    """
    pre: 0 <= n <= MAXLEN and 0 <= i0 < len(ALPH) and 0 <= i1 < len(ALPH) and 0 <= i2 < len(ALPH)
    pre: (n > 2 or i2 == 0) and (n > 1 or i1 == 0) and (n > 0 or i0 == 0)
    post: _
    """
    s = "".join([ALPHL[i0], ALPHL[i1], ALPHL[i2]][:n])
    return _stored_as_data(_date_chart_tree, lambda t: t.xpath(".//c:dateAx/c:numFmt")[0].get("formatCode"))(s)


_BASE_CHART = _chart_tree("S", "a", None)


@cond(timeout=900, encodes=["pptx.chart.xmlwriter:_BaseSeriesXmlRewriter.replace_series_data", "pptx.chart.xmlwriter:_BaseSeriesXmlWriter.tx",
                            "pptx.chart.xmlwriter:_BaseSeriesXmlWriter.cat", "pptx.chart.xmlwriter:_BaseSeriesXmlWriter.val"],
      bound=BOUND + "; sink: series name / category label given to replace_data on an existing line chart (element path)")
def chart_replace_data_names(s: str, as_category: bool) -> bool:
    """
    pre: len(s) <= MAXLEN and all(c in ALPH for c in s)
    post: _
    """
    import copy

    def build(v):
        cs = copy.deepcopy(_BASE_CHART)
        cd = CategoryChartData()
        cd.categories = [v if as_category else "a", "b"]
        cd.add_series("S" if as_category else v, (3.0, 4.0))
        SeriesXmlRewriterFactory(XL_CHART_TYPE.LINE, cd).replace_series_data(cs)
        return cs

    read = (lambda t: t.xpath(".//c:ser/c:cat//c:pt/c:v")[0].text or "") if as_category else (lambda t: t.xpath(".//c:ser/c:tx//c:v")[0].text or "")
    return _stored_as_data(build, read)(s)


# ------------------------------------------------------------------ lxml-assignment sinks (safe baseline)
def _sptree():
    return parse_xml(
        "<p:spTree %s><p:nvGrpSpPr><p:cNvPr id=\"1\" name=\"\"/><p:cNvGrpSpPr/><p:nvPr/></p:nvGrpSpPr>"
        "<p:grpSpPr/></p:spTree>" % nsdecls("p", "a")
    )


@cond(timeout=600, encodes=["pptx.shapes.base:BaseShape.name", "pptx.text.text:Font.name", "pptx.text.text:_Run.text",
                            "pptx.parts.coreprops:CorePropertiesPart.title"],
      bound=BOUND + "; sinks assigned through the element API: shape name, font name, run text, core-property title")
def assignment_sinks(s: str, which: int) -> bool:
    """
    pre: len(s) <= MAXLEN and all(c in ALPH for c in s) and 0 <= which < 4
    post: _
    """
    shapes = SlideShapes(_sptree(), None)
    sh = shapes.add_shape(MSO_SHAPE.RECTANGLE, 0, 0, 10, 10)
    n = _count(shapes._spTree)
    if which == 0:
        sh.name = s
        return sh.name == s and _count(shapes._spTree) == n
    run = sh.text_frame.paragraphs[0].add_run()
    run.font  # creates the (empty) a:rPr container
    n = _count(shapes._spTree)
    if which == 1:
        run.font.name = s
        return run.font.name == s and _count(shapes._spTree) == n + 1  # a:latin added
    if which == 2:
        run.text = s
        return run.text == s and _count(shapes._spTree) == n
    from pptx.oxml.coreprops import CT_CoreProperties
    from pptx.parts.coreprops import CorePropertiesPart

    cp = CorePropertiesPart(None, None, None, CT_CoreProperties.new_coreProperties())
    cp.title = s
    return cp.title == s and len(cp._element) == 1


# ------------------------------------------------------------------ entity-like and CDATA-like fragments (token strings)
TOKENS = ["&", "<", ">", '"', "'", "a", ";", "&amp;", "&lt;", "&#65;", "&#x41;", "]]>", "<!--", "&quot;"]

_TOK = '''
@cond(timeout=600, encodes={enc!r},
      bound="strings of 1..2 tokens from [&, <, >, \\", ', a, ;, &amp;, &lt;, &#65;, &#x41;, ]]>, <!--, &quot;] (symbolic token indices, "
            "concrete per path: exhaustive over 210 strings); sink: {name}")
def tokens_{name}(n: int, i0: int, i1: int) -> bool:
    """
    pre: 1 <= n <= 2 and 0 <= i0 < len(TOKENS) and 0 <= i1 < len(TOKENS) and (n > 1 or i1 == 0)
    post: _
    """
    s = "".join([TOKENS[i0], TOKENS[i1]][:n])
    build, read, _ = SINKS["{name}"]
    return _stored_as_data(build, read)(s)
'''
for _n, (_b, _r, _e) in SINKS.items():
    gen(_TOK.format(name=_n, enc=_e), globals())


@cond(timeout=900, encodes=["pptx.chart.xmlwriter:_BaseSeriesXmlWriter.name", "pptx.chart.xmlwriter:_CategorySeriesXmlWriter.cat_xml",
                            "pptx.chart.xmlwriter:_BaseSeriesXmlWriter.numRef_xml", "pptx.chart.xmlwriter:_BaseSeriesXmlRewriter.replace_series_data"],
      bound="token strings as above for the chart sinks: series name / category label / number format in generated XML (symbolic "
            "selector) and series name through replace_data")
def tokens_chart(n: int, i0: int, i1: int, which: int) -> bool:
    """
    pre: 1 <= n <= 2 and 0 <= i0 < len(TOKENS) and 0 <= i1 < len(TOKENS) and (n > 1 or i1 == 0) and 0 <= which < 4
    post: _
    """
    import copy

    s = "".join([TOKENS[i0], TOKENS[i1]][:n])
    if which == 0:
        return _stored_as_data(lambda v: _chart_tree(v, "a", None), lambda t: t.xpath(".//c:ser/c:tx//c:v")[0].text or "")(s)
    if which == 1:
        return _stored_as_data(lambda v: _chart_tree("S", v, None), lambda t: t.xpath(".//c:ser/c:cat//c:pt/c:v")[0].text or "")(s)
    if which == 2:
        return _stored_as_data(lambda v: _chart_tree("S", "a", v), lambda t: t.xpath(".//c:ser/c:val//c:formatCode")[0].text or "")(s)

    def build(v):
        cs = copy.deepcopy(_BASE_CHART)
        cd = CategoryChartData()
        cd.categories = ["a", "b"]
        cd.add_series(v, (3.0, 4.0))
        SeriesXmlRewriterFactory(XL_CHART_TYPE.LINE, cd).replace_series_data(cs)
        return cs

    return _stored_as_data(build, lambda t: t.xpath(".//c:ser/c:tx//c:v")[0].text or "")(s)
