"""C09 -- a property reads back as set; None restores inheritance; siblings untouched. DESIGN.md section 6, C09.
Table-driven: one generated condition per (object kind, property). The real getter/setter pair runs down to the attribute
descriptor and simple type on the pxml stand-in."""
from kit.env import *  # noqa

setup()

import copy  # noqa: E402

from pptx.enum.dml import MSO_LINE  # noqa: E402
from pptx.enum.lang import MSO_LANGUAGE_ID  # noqa: E402
from pptx.enum.shapes import MSO_SHAPE  # noqa: E402
from pptx.enum.text import MSO_ANCHOR, MSO_AUTO_SIZE, MSO_UNDERLINE, PP_ALIGN  # noqa: E402
from pptx.oxml import parse_xml  # noqa: E402
from pptx.oxml.ns import nsdecls  # noqa: E402
from pptx.oxml.table import CT_Table  # noqa: E402
from pptx.shapes.shapetree import SlideShapes  # noqa: E402
from pptx.table import Table  # noqa: E402

ENC = ["pptx.oxml.xmlchemy:OptionalAttribute._setter", "pptx.oxml.xmlchemy:OptionalAttribute._getter",
       "pptx.oxml.xmlchemy:RequiredAttribute._setter", "pptx.oxml.xmlchemy:RequiredAttribute._getter",
       "pptx.shapes.base:BaseShape.left", "pptx.shapes.base:BaseShape.name", "pptx.text.text:TextFrame.margin_left",
       "pptx.text.text:TextFrame.word_wrap", "pptx.text.text:TextFrame.vertical_anchor", "pptx.text.text:TextFrame.auto_size",
       "pptx.text.text:_Paragraph.alignment", "pptx.text.text:_Paragraph.level", "pptx.text.text:_Paragraph.space_before",
       "pptx.text.text:Font.size", "pptx.text.text:Font.bold", "pptx.text.text:Font.underline", "pptx.text.text:Font.name",
       "pptx.text.text:Font.language_id", "pptx.dml.line:LineFormat.width", "pptx.dml.line:LineFormat.dash_style",
       "pptx.table:_Cell.margin_left", "pptx.table:_Cell.vertical_anchor", "pptx.table:_Column.width", "pptx.table:_Row.height",
       "pptx.presentation:Presentation.slide_width"]


def _sptree():
    return parse_xml(
        "<p:spTree %s><p:nvGrpSpPr><p:cNvPr id=\"1\" name=\"\"/><p:cNvGrpSpPr/><p:nvPr/></p:nvGrpSpPr>"
        "<p:grpSpPr/></p:spTree>" % nsdecls("p", "a")
    )


_SHAPES = SlideShapes(_sptree(), None)
_SHAPES.add_shape(MSO_SHAPE.RECTANGLE, 100, 200, 300, 400)
_SP = _SHAPES._spTree[-1]
_TBL = CT_Table.new_tbl(2, 2, 2000, 1000)
_PRS = parse_xml("<p:presentation %s><p:sldSz cx=\"9144000\" cy=\"6858000\"/><p:notesSz cx=\"6858000\" cy=\"9144000\"/>"
                 "</p:presentation>" % nsdecls("p", "a", "r"))


class _Frame:
    def __init__(self):
        self.width = self.height = None
        self.part = None


def _shape():
    spTree = _sptree()
    spTree.append(copy.deepcopy(_SP))
    return list(SlideShapes(spTree, None))[0]


def _text_frame():
    return _shape().text_frame


def _paragraph():
    return _shape().text_frame.paragraphs[0]


def _font():
    r = _shape().text_frame.paragraphs[0].add_run()
    r.text = "x"
    return r.font


def _line():
    return _shape().line


def _cell():
    return Table(copy.deepcopy(_TBL), _Frame()).cell(0, 1)


def _column():
    return Table(copy.deepcopy(_TBL), _Frame()).columns[1]


def _row():
    return Table(copy.deepcopy(_TBL), _Frame()).rows[0]


def _presentation():
    from pptx.presentation import Presentation

    return Presentation(copy.deepcopy(_PRS), None)


def _root(obj):
    for a in ("_element", "_txBody", "_p", "_rPr", "_tc", "_gridCol", "_tr", "_parent"):
        e = getattr(obj, a, None)
        if e is not None and hasattr(e, "tag"):
            break
        if e is not None and hasattr(e, "_element"):
            e = e._element
            break
    while e.getparent() is not None:
        e = e.getparent()
    return e


EMPTY_OK = ("ln", "pPr", "rPr", "tcPr", "defRPr", "bodyPr", "tblPr")


def _snap(e):
    """Structural snapshot, ignoring empty attribute-less formatting containers (a getter or a rejected setter may leave
    one behind; it carries no meaning and is schema-valid)."""
    kids = [c for c in e if not (len(c) == 0 and len(c.attrib) == 0 and not c.text and c.tag.split("}")[-1] in EMPTY_OK)]
    return (e.tag, sorted(e.attrib.items()), e.text, [_snap(c) for c in kids])


BUILD = {"shape": _shape, "text_frame": _text_frame, "paragraph": _paragraph, "font": _font, "line": _line, "cell": _cell,
         "column": _column, "row": _row, "presentation": _presentation}
ENUMS = {"MSO_ANCHOR": MSO_ANCHOR, "MSO_AUTO_SIZE": MSO_AUTO_SIZE, "PP_ALIGN": PP_ALIGN, "MSO_LINE": MSO_LINE,
         "MSO_LANGUAGE_ID": MSO_LANGUAGE_ID, "MSO_UNDERLINE": MSO_UNDERLINE}
# (object kind, property, value kind, quantum, value read when None is assigned ('absent' -> None), accepts None)
REGISTRY = [
    ("shape", "left", "int", 0, None, False), ("shape", "top", "int", 0, None, False), ("shape", "width", "int", 0, None, False),
    ("shape", "height", "int", 0, None, False), ("shape", "name", "str", 0, None, False),
    ("text_frame", "margin_left", "int", 0, 91440, False), ("text_frame", "margin_right", "int", 0, 91440, False),
    ("text_frame", "margin_top", "int", 0, 45720, False), ("text_frame", "margin_bottom", "int", 0, 45720, False),
    ("text_frame", "word_wrap", "bool", 0, None, True), ("text_frame", "vertical_anchor", "enum:MSO_ANCHOR", 0, None, True),
    ("text_frame", "auto_size", "enum:MSO_AUTO_SIZE", 0, None, True),
    ("paragraph", "alignment", "enum:PP_ALIGN", 0, None, True), ("paragraph", "level", "int", 0, None, False),
    ("paragraph", "space_before", "int", 126, None, True), ("paragraph", "space_after", "int", 126, None, True),
    ("font", "size", "int", 126, None, True), ("font", "bold", "bool", 0, None, True), ("font", "italic", "bool", 0, None, True),
    ("font", "underline", "bool", 0, None, True), ("font", "name", "str", 0, None, True),
    ("font", "language_id", "enum:MSO_LANGUAGE_ID", 0, "LANG_NONE", True),
    ("line", "width", "int", 0, 0, True), ("line", "dash_style", "enum:MSO_LINE", 0, None, True),
    ("cell", "margin_left", "int", 0, 91440, True), ("cell", "margin_right", "int", 0, 91440, True),
    ("cell", "margin_top", "int", 0, 45720, True), ("cell", "margin_bottom", "int", 0, 45720, True),
    ("cell", "vertical_anchor", "enum:MSO_ANCHOR", 0, None, True),
    ("column", "width", "int", 0, None, False), ("row", "height", "int", 0, None, False),
    ("presentation", "slide_width", "int", 0, None, False), ("presentation", "slide_height", "int", 0, None, False),
]
NONE_READS = {"LANG_NONE": MSO_LANGUAGE_ID.NONE}
SIBLINGS = {}
for _k, _p, *_rest in REGISTRY:
    SIBLINGS.setdefault(_k, []).append(_p)


def _others(kind, prop, obj):
    return [getattr(obj, s) for s in SIBLINGS[kind] if s != prop]


def _check_int(kind, prop, q, v, preset, w):
    obj = BUILD[kind]()
    if preset:
        try:
            setattr(obj, prop, w)
        except (TypeError, ValueError):
            return True  # w is outside the domain: not a valid prior state
    before = getattr(obj, prop)
    sib = _others(kind, prop, obj)
    snap = _snap(_root(obj))
    try:
        setattr(obj, prop, v)
    except (TypeError, ValueError):
        return getattr(obj, prop) == before and _snap(_root(obj)) == snap
    got = getattr(obj, prop)
    return got is not None and -q <= got - v <= q and _others(kind, prop, obj) == sib


def _check_none(kind, prop, none_reads, preset_val):
    obj = BUILD[kind]()
    setattr(obj, prop, preset_val)
    sib = _others(kind, prop, obj)
    setattr(obj, prop, None)
    got = getattr(obj, prop)
    ok = (got is None) if none_reads is None else (got == none_reads)
    return ok and _others(kind, prop, obj) == sib


_INT = '''
@cond(timeout=300, encodes=ENC,
      bound="{kind}.{prop}: assigned value every Python int; prior state: inherited or an explicit earlier value (any int the "
            "setter accepts): accepted => reads back within {q} EMU and the object's other registered properties read as before; "
            "rejected => TypeError/ValueError and the whole tree is unchanged")
def rt_{kind}_{prop}(v: int, preset: bool, w: int) -> bool:
    """
    post: _
    """
    return _check_int("{kind}", "{prop}", {q}, v, preset, w)


@cond(expect="refute", timeout=120, twin_of="rt_{kind}_{prop}")
def rt_{kind}_{prop}_twin(v: int) -> bool:
    """
    post: _
    """
    obj = BUILD["{kind}"]()
    try:
        setattr(obj, "{prop}", v)
    except (TypeError, ValueError):
        return True
    return False
'''
_INT_NONE = '''
@cond(timeout=120, encodes=ENC, bound="{kind}.{prop}: None after an explicit value (any accepted int) restores the inherited reading")
def none_{kind}_{prop}(w: int) -> bool:
    """
    post: _
    """
    obj = BUILD["{kind}"]()
    try:
        setattr(obj, "{prop}", w)
    except (TypeError, ValueError):
        return True
    return _check_none("{kind}", "{prop}", {none_reads!r}, w)
'''
_ENUM = '''
@cond(timeout=900, encodes=ENC,
      bound="{kind}.{prop}: every member of {enum} that has an XML value (symbolic index) and None, after an optional earlier member (one of the first three; first only for enums with more than 50 members): "
            "reads back the member / None; other registered properties read as before")
def rt_{kind}_{prop}(i: int, j: int, to_none: bool) -> bool:
    """
    pre: 0 <= i < len(_members("{enum}")) and -1 <= j < min({jmax}, len(_members("{enum}")))
    post: _
    """
    ms = _members("{enum}")
    obj = BUILD["{kind}"]()
    if j >= 0:
        setattr(obj, "{prop}", ms[j])
    sib = _others("{kind}", "{prop}", obj)
    setattr(obj, "{prop}", ms[i])
    ok = getattr(obj, "{prop}") is ms[i] and _others("{kind}", "{prop}", obj) == sib
    if to_none:
        setattr(obj, "{prop}", None)
        got = getattr(obj, "{prop}")
        ok = ok and (got is None or got is NONE_READS.get({none_reads!r})) and _others("{kind}", "{prop}", obj) == sib
    return ok
'''
_BOOL = '''
@cond(timeout=120, encodes=ENC, bound="{kind}.{prop}: True / False / None in any order of two assignments")
def rt_{kind}_{prop}(a: int, b: int) -> bool:
    """
    pre: 0 <= a < 3 and 0 <= b < 3
    post: _
    """
    vals = [True, False, None]
    obj = BUILD["{kind}"]()
    sib = _others("{kind}", "{prop}", obj)
    setattr(obj, "{prop}", vals[a])
    ok = getattr(obj, "{prop}") is vals[a]
    setattr(obj, "{prop}", vals[b])
    return ok and getattr(obj, "{prop}") is vals[b] and _others("{kind}", "{prop}", obj) == sib
'''
_STR = '''
@cond(timeout=300, encodes=ENC, bound="{kind}.{prop}: every str of length <= 4 (symbolic characters){none_txt}")
def rt_{kind}_{prop}(s: str, then_none: bool) -> bool:
    """
    pre: len(s) <= 4
    post: _
    """
    obj = BUILD["{kind}"]()
    sib = _others("{kind}", "{prop}", obj)
    setattr(obj, "{prop}", s)
    ok = getattr(obj, "{prop}") == s and _others("{kind}", "{prop}", obj) == sib
    if then_none and {none_ok}:
        setattr(obj, "{prop}", None)
        ok = ok and getattr(obj, "{prop}") is None
    return ok
'''


_MEMBER_CACHE = {}


def _members(enum):
    if enum not in _MEMBER_CACHE:
        _MEMBER_CACHE[enum] = _compute_members(enum)
    return _MEMBER_CACHE[enum]


def _compute_members(enum):
    cls = ENUMS[enum]
    if hasattr(cls, "from_xml"):
        return [m for m in cls if m.xml_value and not excluded("C09_enum_members", enum=enum, member=m.name)]
    return [m for m in cls if m.value >= 0]  # plain enums: negative values are return-only (e.g. MIXED)


for _e in ENUMS:
    _members(_e)  # computed once, at import (outside tracing)
for _kind, _prop, _vk, _q, _nr, _none_ok in REGISTRY:
    if _vk == "int":
        gen(_INT.format(kind=_kind, prop=_prop, q=_q), globals())
        if _none_ok:
            gen(_INT_NONE.format(kind=_kind, prop=_prop, none_reads=_nr), globals())
    elif _vk.startswith("enum:"):
        gen(_ENUM.format(kind=_kind, prop=_prop, enum=_vk[5:], none_reads=_nr, jmax=1 if len(_members(_vk[5:])) > 50 else 3), globals())
    elif _vk == "bool":
        gen(_BOOL.format(kind=_kind, prop=_prop), globals())
    elif _vk == "str":
        gen(_STR.format(kind=_kind, prop=_prop, none_ok=_none_ok, none_txt="; then None" if _none_ok else ""), globals())


def lang_dup_witness():
    """Replay of the listed known finding C09-lang-dup (returns False while it reproduces)."""
    f = _font()
    f.language_id = MSO_LANGUAGE_ID.GAELIC_SCOTLAND
    return f.language_id is MSO_LANGUAGE_ID.GAELIC_SCOTLAND


# ------------------------------------------------------------------ adjustments and chart objects: the XML is the truth
# Oracle: whatever the object reports after an assignment, a *fresh* proxy built on the same element tree must report too
# (what a saved and re-opened file would show).
from pptx.shapes.autoshape import Shape  # noqa: E402

ADJ_VALUES = [0.0, 0.16667, 0.5, 1.0, -0.25, 0.99999]
_SHAPES2 = SlideShapes(_sptree(), None)
_SHAPES2.add_shape(MSO_SHAPE.ROUNDED_RECTANGLE, 0, 0, 100, 100)
_SHAPES2.add_shape(MSO_SHAPE.CHEVRON, 0, 0, 100, 100)
_SHAPES2.add_shape(MSO_SHAPE.LEFT_RIGHT_ARROW, 0, 0, 100, 100)
_ADJ_SPS = list(_SHAPES2._spTree)[-3:]


@cond(timeout=900, encodes=["pptx.shapes.autoshape:AdjustmentCollection.__setitem__", "pptx.shapes.autoshape:AdjustmentCollection._rewrite_guides",
                            "pptx.shapes.autoshape:Adjustment.val", "pptx.shapes.autoshape:Adjustment.effective_value",
                            "pptx.shapes.autoshape:AdjustmentCollection._initialized_adjustments"],
      bound="shape in [rounded rectangle (1 adjustment), chevron (1), left-right arrow (2)] x adjustment index x value from a pool "
            "of 6 incl. 0.0 and a negative (symbolic indices): the value reads back, other adjustments keep their reading, and a "
            "fresh Shape proxy over the same XML reads the same values")
def adjustment_round_trip(s: int, k: int, vi: int, second: int) -> bool:
    """
    pre: 0 <= s < 3 and 0 <= k < 2 and 0 <= vi < len(ADJ_VALUES) and -1 <= second < 3
    post: _
    """
    spTree = _sptree()
    spTree.append(copy.deepcopy(_ADJ_SPS[s]))
    shape = list(SlideShapes(spTree, None))[0]
    adj = shape.adjustments
    if k >= len(adj):
        return True
    before = [adj[i] for i in range(len(adj))]
    adj[k] = ADJ_VALUES[vi]
    want = list(before)
    want[k] = ADJ_VALUES[vi]
    if second >= 0 and len(adj) > 1:
        adj[1 - k] = ADJ_VALUES[second]
        want[1 - k] = ADJ_VALUES[second]
    got = [adj[i] for i in range(len(adj))]
    fresh = Shape(shape._element, None).adjustments
    got2 = [fresh[i] for i in range(len(fresh))]
    return (all(abs(a - b) < 1e-5 for a, b in zip(got, want)) and len(got2) == len(want)
            and all(abs(a - b) < 1e-5 for a, b in zip(got2, want)))


from pptx.chart.chart import Chart  # noqa: E402
from pptx.chart.data import CategoryChartData  # noqa: E402
from pptx.chart.xmlwriter import ChartXmlWriter  # noqa: E402
from pptx.enum.chart import XL_CHART_TYPE, XL_LEGEND_POSITION, XL_TICK_LABEL_POSITION, XL_TICK_MARK  # noqa: E402

_cd = CategoryChartData()
_cd.categories = ["a", "b"]
_cd.add_series("S1", (1.0, 2.0))
_CHART_XML = ChartXmlWriter(XL_CHART_TYPE.BAR_CLUSTERED, _cd).xml.encode("utf-8")
_CHARTSPACE = parse_xml(_CHART_XML)
LEGEND_POS = [m for m in XL_LEGEND_POSITION if m.xml_value]
CHART_OPS = ["read-legend", "has_legend=False", "has_legend=True", "legend.position", "legend.include_in_layout=False",
             "legend.include_in_layout=None", "has_title toggle", "chart_style"]


def _chart_state(chart):
    lg = chart.legend
    return (chart.has_legend, None if lg is None else (lg.position, lg.include_in_layout), chart.has_title, chart.chart_style)


@cond(timeout=900, encodes=["pptx.chart.chart:Chart.has_legend", "pptx.chart.chart:Chart.legend", "pptx.chart.legend:Legend.position",
                            "pptx.chart.legend:Legend.include_in_layout", "pptx.chart.chart:Chart.has_title", "pptx.chart.chart:Chart.chart_style",
                            "pptx.oxml.chart.chart:CT_Chart.has_legend"],
      bound="bar chart; sequences of 3 operations out of %d (%s) with symbolic arguments (legend position index, style 1..48): after "
            "every step what the long-lived Chart object reports equals what a fresh Chart proxy over the same XML reports, "
            "has_legend agrees with legend being None, and the last assigned values read back" % (len(CHART_OPS), ", ".join(CHART_OPS)))
def chart_object_follows_xml(a: int, b: int, c: int, pos: int, style: int) -> bool:
    """
    pre: 0 <= a < len(CHART_OPS) and 0 <= b < len(CHART_OPS) and 0 <= c < len(CHART_OPS)
    pre: 0 <= pos < len(LEGEND_POS) and 1 <= style <= 48
    post: _
    """
    cs = copy.deepcopy(_CHARTSPACE)
    chart = Chart(cs, None)
    expect_pos = expect_incl = expect_style = None
    for op in (a, b, c):
        if op == 0:
            chart.legend
        elif op == 1:
            chart.has_legend = False
            expect_pos = expect_incl = None
        elif op == 2:
            chart.has_legend = True
        elif op == 3 and chart.has_legend:
            chart.legend.position = LEGEND_POS[pos]
            expect_pos = LEGEND_POS[pos]
        elif op == 4 and chart.has_legend:
            chart.legend.include_in_layout = False
            expect_incl = False
        elif op == 5 and chart.has_legend:
            chart.legend.include_in_layout = None
            expect_incl = True
        elif op == 6:
            chart.has_title = not chart.has_title
        elif op == 7:
            chart.chart_style = style
            expect_style = style
        fresh = Chart(cs, None)
        if _chart_state(chart) != _chart_state(fresh) or chart.has_legend != (chart.legend is not None):
            return False
    ok = True
    if chart.has_legend:
        if expect_pos is not None:
            ok = ok and chart.legend.position is expect_pos
        if expect_incl is not None:
            ok = ok and chart.legend.include_in_layout == expect_incl
    if expect_style is not None:
        ok = ok and chart.chart_style == expect_style
    return ok


# ------------------------------------------------------------------ value-axis crossing: two properties over one choice in the XML
from pptx.enum.chart import XL_AXIS_CROSSES  # noqa: E402

CROSS_OPS = [("crosses", XL_AXIS_CROSSES.AUTOMATIC), ("crosses", XL_AXIS_CROSSES.MAXIMUM), ("crosses", XL_AXIS_CROSSES.MINIMUM),
             ("crosses", XL_AXIS_CROSSES.CUSTOM), ("crosses_at", 2.5), ("crosses_at", -1.0), ("crosses_at", None)]


@cond(timeout=2400 if THOROUGH else 600, encodes=["pptx.chart.axis:ValueAxis.crosses", "pptx.chart.axis:ValueAxis.crosses_at", "pptx.chart.axis:ValueAxis._cross_xAx"],
      bound="bar chart, value axis; sequences of 2 (quick; a third step fixed to crosses_at = None) / 3 (thorough) assignments out of 7 (crosses = AUTOMATIC / "
            "MAXIMUM / MINIMUM / CUSTOM, crosses_at = 2.5 / -1.0 / None): after every step crosses and crosses_at read as the documented "
            "state machine says (a non-custom member clears the number; CUSTOM keeps an existing number, else 0.0; a number means CUSTOM), "
            "a fresh proxy over the same XML reads the same, and the axis holds at most one of c:crosses / c:crossesAt")
def axis_crossing_sequence(a: int, b: int, c: int) -> bool:
    """
    pre: 0 <= a < len(CROSS_OPS) and 0 <= b < len(CROSS_OPS) and (0 <= c < len(CROSS_OPS) if THOROUGH else c == 6)
    post: _
    """
    cs = copy.deepcopy(_CHARTSPACE)
    chart = Chart(cs, None)
    axis = chart.value_axis
    mode, at = axis.crosses, axis.crosses_at
    for op in (a, b, c):
        name, value = choose(CROSS_OPS, op)
        setattr(axis, name, value)
        if name == "crosses":
            if value is XL_AXIS_CROSSES.CUSTOM:
                if at is None:
                    mode, at = value, 0.0
            else:
                mode, at = value, None
        else:
            mode, at = XL_AXIS_CROSSES.CUSTOM, value
        fresh_chart = Chart(cs, None)
        fresh = fresh_chart.value_axis
        if axis.crosses != mode or axis.crosses_at != at or fresh.crosses != mode or fresh.crosses_at != at:
            detail(globals(), "after %s=%r: crosses=%r crosses_at=%r, expected %r %r", name, value, axis.crosses, axis.crosses_at, mode, at)
            return False
        cross = axis._cross_xAx
        if len(cross.xpath("./c:crosses")) + len(cross.xpath("./c:crossesAt")) > 1:
            return False
    return True


LAST_DETAIL = None
