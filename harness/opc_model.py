"""Shared by C01 / C16 / C02: an in-memory stand-in for the physical package (zip / directory) layer.

Contract of the stand-in = what PackageReader / PackageWriter use of _PhysPkgReader / _PhysPkgWriter:
reader: `pack_uri in r`, `r[pack_uri] -> bytes` (KeyError when absent); writer: context manager with
`write(pack_uri, blob)`. zipfile, os and the byte layout of the archive are outside every claim made through it."""
import posixpath  # noqa: F401

import pptx.opc.serialized as SZ
from pptx.opc.packuri import PackURI


class MemFile:
    """A 'package file' held as {member name without leading slash: bytes}."""

    def __init__(self, members=None):
        self.members = dict(members or {})

    def __repr__(self):
        return "MemFile(%r)" % sorted(self.members)


class _MemReader(SZ._PhysPkgReader):
    def __init__(self, mf):
        self._mf = mf

    def __contains__(self, pack_uri):
        return isinstance(pack_uri, str) and pack_uri[1:] in self._mf.members

    def __getitem__(self, pack_uri):
        if pack_uri[1:] not in self._mf.members:
            raise KeyError("no member '%s' in package" % pack_uri)
        return self._mf.members[pack_uri[1:]]


class _MemWriter(SZ._PhysPkgWriter):
    def __init__(self, mf):
        self._mf = mf
        self.names = []

    def __enter__(self):
        self._mf.members.clear()
        return self

    def __exit__(self, *exc):
        return None

    def write(self, pack_uri, blob):
        # a zip archive may hold two members of one name; record that instead of overwriting silently
        self.names.append(pack_uri[1:])
        self._mf.written = list(self.names)
        self._mf.members[pack_uri[1:]] = blob


_orig_reader_factory = SZ._PhysPkgReader.factory.__func__
_orig_writer_factory = SZ._PhysPkgWriter.factory.__func__


def _reader_factory(cls, pkg_file):
    if isinstance(pkg_file, MemFile):
        return _MemReader(pkg_file)
    return _orig_reader_factory(cls, pkg_file)


def _writer_factory(cls, pkg_file):
    if isinstance(pkg_file, MemFile):
        return _MemWriter(pkg_file)
    return _orig_writer_factory(cls, pkg_file)


SZ._PhysPkgReader.factory = classmethod(_reader_factory)
SZ._PhysPkgWriter.factory = classmethod(_writer_factory)

CT_NS = "http://schemas.openxmlformats.org/package/2006/content-types"
REL_NS = "http://schemas.openxmlformats.org/package/2006/relationships"


def content_types_xml(defaults, overrides):
    """defaults: [(ext, content_type)], overrides: [(partname, content_type)]"""
    s = '<?xml version="1.0" encoding="UTF-8" standalone="yes"?>\n<Types xmlns="%s">' % CT_NS
    for ext, ct in defaults:
        s += '<Default Extension="%s" ContentType="%s"/>' % (ext, ct)
    for pn, ct in overrides:
        s += '<Override PartName="%s" ContentType="%s"/>' % (pn, ct)
    return (s + "</Types>").encode("utf-8")


def rels_xml(rels):
    """rels: [(rId, reltype, target, external?)]"""
    s = '<?xml version="1.0" encoding="UTF-8" standalone="yes"?>\n<Relationships xmlns="%s">' % REL_NS
    for rId, reltype, target, ext in rels:
        s += '<Relationship Id="%s" Type="%s" Target="%s"%s/>' % (rId, reltype, target, ' TargetMode="External"' if ext else "")
    return (s + "</Relationships>").encode("utf-8")


def rels_member(partname):
    """'/ppt/a.xml' -> 'ppt/_rels/a.xml.rels' ; '/' -> '_rels/.rels' (independent of PackURI.rels_uri)"""
    i = partname.rfind("/")
    d, f = partname[:i], partname[i + 1:]
    return (d + "/_rels/" + f + ".rels")[1:]


def read_rels(blob):
    """Independent reader (xml.etree): [(rId, reltype, target, external?)]"""
    import xml.etree.ElementTree as ET

    root = ET.fromstring(blob)
    return [(e.get("Id"), e.get("Type"), e.get("Target"), e.get("TargetMode") == "External") for e in root]


def read_content_types(blob):
    import xml.etree.ElementTree as ET

    root = ET.fromstring(blob)
    d, o = {}, {}
    for e in root:
        if e.tag.endswith("}Default"):
            d[e.get("Extension").lower()] = e.get("ContentType")
        else:
            o[e.get("PartName").lower()] = e.get("ContentType")
    return d, o


def type_of(d, o, partname):
    """OPC content-type resolution, stated independently: Override by part name (case-insensitive) else Default by extension."""
    if partname.lower() in o:
        return o[partname.lower()]
    leaf = partname[partname.rfind("/") + 1:]
    ext = leaf[leaf.rfind(".") + 1:].lower() if "." in leaf else ""
    return d.get(ext)


def resolve(base_dir, ref):
    """RFC 3986 reference resolution of a relative or root-absolute path reference (independent of posixpath)."""
    segs = [] if ref.startswith("/") else [s for s in base_dir.split("/") if s]
    for s in ref.split("/"):
        if s in ("", "."):
            continue
        if s == "..":
            if segs:
                segs.pop()
        else:
            segs.append(s)
    return "/" + "/".join(segs)


def dirname(partname):
    i = partname.rfind("/")
    return partname[:i] or "/"
