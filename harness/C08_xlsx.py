"""C08 -- the chart's cached values and its embedded workbook agree cell for cell. DESIGN.md section 6, C08.
The xlsxwriter worksheet is replaced by a recording stand-in (contract: write(row, col, v), write_column(row, col, seq),
zero-based); the bytes xlsxwriter emits are outside the claim."""
from kit.env import *  # noqa

setup()

import datetime  # noqa: E402

import pptx.chart.data as D  # noqa: E402
from pptx.chart.data import BubbleChartData, CategoryChartData, XyChartData  # noqa: E402
from pptx.chart.xlsx import BubbleWorkbookWriter, CategoryWorkbookWriter, XyWorkbookWriter  # noqa: E402
from pptx.chart.xmlwriter import ChartXmlWriter  # noqa: E402
from pptx.enum.chart import XL_CHART_TYPE  # noqa: E402
from pptx.oxml import parse_xml  # noqa: E402

ENC = ["pptx.chart.xlsx:CategoryWorkbookWriter." + n for n in (
    "_column_reference", "_series_col_letter", "categories_ref", "values_ref", "series_name_ref", "_write_categories",
    "_write_cat_column", "_write_series")] + ["pptx.chart.xlsx:XyWorkbookWriter." + n for n in (
    "series_table_row_offset", "x_values_ref", "y_values_ref", "series_name_ref", "_populate_worksheet")] + [
    "pptx.chart.xlsx:BubbleWorkbookWriter.bubble_sizes_ref", "pptx.chart.xlsx:BubbleWorkbookWriter._populate_worksheet",
    "pptx.chart.data:_BaseChartData.data_point_offset", "pptx.chart.data:_BaseChartData.series_index",
    "pptx.chart.data:Categories.depth", "pptx.chart.data:Categories.leaf_count", "pptx.chart.data:Categories.levels",
    "pptx.chart.data:Category._excel_date_number"]


# ------------------------------------------------------------------ column letters
def _decode(s):
    acc = 0
    for ch in s:
        acc = acc * 26 + (ord(ch) - 64)
    return acc


@cond(timeout=120, encodes=ENC, bound="column number n: every int in 1..16384 (value variable)")
def column_reference_decodes_to_n(n: int) -> bool:
    """
    pre: 1 <= n <= 16384
    post: _
    """
    s = CategoryWorkbookWriter._column_reference(n)
    return 1 <= len(s) <= 3 and all("A" <= ch <= "Z" for ch in s) and _decode(s) == n


@cond(expect="refute", timeout=60, twin_of="column_reference_decodes_to_n")
def column_reference_twin(n: int) -> bool:
    """
    pre: 1 <= n <= 16384
    post: _
    """
    return CategoryWorkbookWriter._column_reference(n) != "AAA"


@cond(timeout=60, encodes=ENC, bound="every int outside 1..16384: ValueError")
def column_reference_out_of_range(n: int) -> bool:
    """
    pre: n < 1 or n > 16384
    post: _
    """
    try:
        CategoryWorkbookWriter._column_reference(n)
    except ValueError:
        return True
    return False


COLS = [1, 2, 25, 26, 27, 28, 51, 52, 53, 701, 702, 703, 704, 728, 729, 16383, 16384]


@cond(timeout=600, tiers=("thorough",), encodes=ENC + ["xlsxwriter.utility:xl_col_to_name"],
      bound="differential against xlsxwriter's own xl_col_to_name(n - 1) (the function that names the column a cell is really "
            "written to) on 17 boundary column numbers around Z/AA, ZZ/AAA and the last column (symbolic index, concrete per path: "
            "with a symbolic n the two letter loops fork per letter and do not finish)")
def column_reference_matches_xlsxwriter(i: int) -> bool:
    """
    pre: 0 <= i < len(COLS)
    post: _
    """
    from xlsxwriter.utility import xl_col_to_name

    n = choose(COLS, i)
    return CategoryWorkbookWriter._column_reference(n) == xl_col_to_name(n - 1)


# ------------------------------------------------------------------ recording worksheet
class _Fmt:
    pass


class _Workbook:
    def add_format(self, d):
        return _Fmt()


class _Sheet:
    def __init__(self):
        self.cells = {}

    def write(self, row, col, v, fmt=None):
        self.cells[(row, col)] = v

    def write_column(self, row, col, seq, fmt=None):
        for i, v in enumerate(seq):
            self.cells[(row + i, col)] = v

    def set_column(self, *a):
        pass


def _parse_ref(ref):
    """'Sheet1!$B$2:$B$4' -> (col_from, row_from, col_to, row_to), 1-based; single cell -> same twice."""
    assert ref.startswith("Sheet1!")
    parts = ref[len("Sheet1!"):].split(":")

    def cell(p):
        _, col, row = p.split("$")
        return _decode(col), int(row)

    a = cell(parts[0])
    b = cell(parts[-1])
    return a[0], a[1], b[0], b[1]


def _range_values(sheet, ref):
    c1, r1, c2, r2 = _parse_ref(ref)
    return [[sheet.cells.get((r - 1, c - 1)) for c in range(c1, c2 + 1)] for r in range(r1, r2 + 1)]


C = "{http://schemas.openxmlformats.org/drawingml/2006/chart}"


def _cache_matches(ref_elm, sheet, numeric):
    """The c:f formula of a c:numRef/c:strRef designates exactly the cells cached next to it: ptCount = range size and
    every c:pt (idx, v) equals the cell it is indexed to."""
    f = ref_elm.find(C + "f").text
    cache = ref_elm.find(C + ("numCache" if numeric else "strCache"))
    rows = _range_values(sheet, f)
    flat = [row[0] for row in rows]
    if int(cache.find(C + "ptCount").get("val")) != len(flat):
        return False
    for pt in cache.findall(C + "pt"):
        idx = int(pt.get("idx"))
        v = pt.find(C + "v").text
        cell = flat[idx]
        if cell is None:
            return False
        if numeric:
            if float(v) != float(cell):
                return False
        elif v != str(cell):
            return False
    expected_pts = sum(1 for x in flat if x is not None)
    return len(cache.findall(C + "pt")) == expected_pts


VALS = [1.5, 2.25, -3.0, 4.0, 5.5, 6.0, 7.75, 8.0, 9.5]


@cond(timeout=900, encodes=ENC + ["pptx.chart.xmlwriter:_BarChartXmlWriter.xml", "pptx.chart.xmlwriter:_CategorySeriesXmlWriter.cat_xml",
                                  "pptx.chart.xmlwriter:_CategorySeriesXmlWriter.val_xml", "pptx.chart.xmlwriter:_BaseSeriesXmlWriter.tx_xml"],
      bound="category chart data: ns series in 0..3, nc categories in 1..3, category depth 1..2 (second level: one parent per "
            "leaf or one parent spanning all), per series one value possibly None (symbolic position); references parsed "
            "structurally and compared with the cells the real writer writes and with the caches in the real chart XML")
def category_refs_designate_written_cells(ns: int, nc: int, deep: bool, span: bool, none_at: int) -> bool:
    """
    pre: 0 <= ns <= 3 and 1 <= nc <= 3 and -1 <= none_at < 3
    post: _
    """
    cd = CategoryChartData()
    labels = ["c%d" % i for i in range(nc)]
    if deep:
        if span:
            parent = cd.add_category("P")
            for lb in labels:
                parent.add_sub_category(lb)
        else:
            for i, lb in enumerate(labels):
                cd.add_category("P%d" % i).add_sub_category(lb)
    else:
        for lb in labels:
            cd.add_category(lb)
    data = []
    for s in range(ns):
        vals = [VALS[s * 3 + i] for i in range(nc)]
        if 0 <= none_at < nc:
            vals[none_at] = None
        cd.add_series("S%d" % s, vals)
        data.append(vals)
    w = CategoryWorkbookWriter(cd)
    sh = _Sheet()
    w._populate_worksheet(_Workbook(), sh)
    depth = 2 if deep else 1
    ok = True
    # categories: columns A..depth, rows 2..nc+1; leaf labels in the rightmost of them
    c1, r1, c2, r2 = _parse_ref(w.categories_ref)
    ok = ok and (c1, r1, c2, r2) == (1, 2, depth, nc + 1)
    ok = ok and [sh.cells.get((r, depth - 1)) for r in range(1, nc + 1)] == labels
    for s, series in enumerate(cd):
        ok = ok and _range_values(sh, w.series_name_ref(series)) == [["S%d" % s]]
        rows = _range_values(sh, w.values_ref(series))
        ok = ok and [row[0] for row in rows] == data[s] and len(rows) == len(series)
        col = _parse_ref(w.values_ref(series))[0]
        ok = ok and col == depth + s + 1 and _parse_ref(w.series_name_ref(series))[:2] == (col, 1)
    if ns:
        root = parse_xml(untraced_call(ChartXmlWriter, XL_CHART_TYPE.BAR_CLUSTERED, cd).xml.encode("utf-8"))
        sers = root.xpath(".//c:ser")
        ok = ok and len(sers) == ns
        for ser in sers:
            ok = ok and _cache_matches(ser.xpath("./c:tx/c:strRef")[0], sh, False)
            ok = ok and _cache_matches(ser.xpath("./c:val/c:numRef")[0], sh, True)
            if not deep:
                ok = ok and _cache_matches(ser.xpath("./c:cat/c:strRef")[0], sh, False)
    # stale state: extend the same chart-data object and ask again
    cd.add_category("late") if not deep else cd.add_category("PL").add_sub_category("late")
    c1, r1, c2, r2 = _parse_ref(w.categories_ref)
    return ok and (c1, r1, c2, r2) == (1, 2, depth, nc + 2)


@cond(expect="refute", timeout=300, twin_of="category_refs_designate_written_cells")
def category_refs_twin(ns: int, nc: int, deep: bool) -> bool:
    """
    pre: 0 <= ns <= 3 and 1 <= nc <= 3
    post: _
    """
    cd = CategoryChartData()
    for i in range(nc):
        c = cd.add_category("c%d" % i)
        if deep:
            c.add_sub_category("x")
    for s in range(ns):
        cd.add_series("S%d" % s, [1.0] * nc)
    w = CategoryWorkbookWriter(cd)
    return not (ns == 3 and w.values_ref(list(cd)[2]) == "Sheet1!$E$2:$E$4")


@cond(timeout=300, encodes=ENC, bound="series column letter for category depth 1..4 and series index up to 16383 - depth: decodes "
                                      "to depth + index + 1 (value variables)")
def series_column_letter(depth: int, index: int) -> bool:
    """
    pre: 1 <= depth <= 4 and 0 <= index <= 16383 - depth
    post: _
    """

    class _Cats:
        pass

    class _Ser:
        pass

    ser = _Ser()
    ser.categories = _Cats()
    ser.categories.depth = depth
    ser.index = index
    w = CategoryWorkbookWriter(None)
    return _decode(w._series_col_letter(ser)) == depth + index + 1


@cond(timeout=900, encodes=ENC + ["pptx.chart.xmlwriter:_XyChartXmlWriter.xml", "pptx.chart.xmlwriter:_XySeriesXmlWriter.xVal_xml",
                                  "pptx.chart.xmlwriter:_BubbleSeriesXmlWriter.bubbleSize_xml"],
      bound="XY / bubble chart data: 3 series of symbolic lengths 0..3 each (row offsets accumulate): every reference "
            "designates exactly the cells written for that series; caches in the real chart XML agree with those cells")
def xy_refs_designate_written_cells(l0: int, l1: int, l2: int, bubble: bool) -> bool:
    """
    pre: 0 <= l0 <= 3 and 0 <= l1 <= 3 and 0 <= l2 <= 3
    post: _
    """
    cd = BubbleChartData() if bubble else XyChartData()
    data = []
    for s, n in enumerate((l0, l1, l2)):
        ser = cd.add_series("S%d" % s)
        pts = []
        for i in range(n):
            x, y, z = float(10 * s + i), VALS[s * 3 + i], float(100 + 10 * s + i)
            if bubble:
                ser.add_data_point(x, y, z)
            else:
                ser.add_data_point(x, y)
            pts.append((x, y, z))
        data.append(pts)
    w = cd._workbook_writer  # the writer the chart part uses: it lives as long as the chart-data object
    ok = _xy_consistent(cd, w, data, bubble)
    # stale state: append two points to the first series of the same chart-data object and render again
    # (two points: one more row than the spacer row between two series tables can absorb)
    for x, y, z in ((77.0, 78.5, 79.0), (87.0, 88.5, 89.0)):
        if bubble:
            cd[0].add_data_point(x, y, z)
        else:
            cd[0].add_data_point(x, y)
        data[0].append((x, y, z))
    return ok and _xy_consistent(cd, w, data, bubble)


def _xy_consistent(cd, w, data, bubble):
    sh = _Sheet()
    w._populate_worksheet(_Workbook(), sh)
    ok = True
    for s, series in enumerate(cd):
        n = len(data[s])
        ok = ok and _range_values(sh, w.series_name_ref(series)) == [["S%d" % s]]
        if n:
            ok = ok and [r[0] for r in _range_values(sh, w.x_values_ref(series))] == [p[0] for p in data[s]]
            ok = ok and [r[0] for r in _range_values(sh, w.y_values_ref(series))] == [p[1] for p in data[s]]
            if bubble:
                ok = ok and [r[0] for r in _range_values(sh, w.bubble_sizes_ref(series))] == [p[2] for p in data[s]]
    # no two series tables overlap: every written cell belongs to exactly one series' ranges
    total = sum((2 if bubble else 1) + (3 if bubble else 2) * len(p) for p in data)  # bubble tables carry a 'Size' heading
    ok = ok and len(sh.cells) == total
    root = parse_xml(untraced_call(ChartXmlWriter, XL_CHART_TYPE.BUBBLE if bubble else XL_CHART_TYPE.XY_SCATTER, cd).xml.encode("utf-8"))
    for ser, pts in zip(root.xpath(".//c:ser"), data):
        ok = ok and _cache_matches(ser.xpath("./c:tx/c:strRef")[0], sh, False)
        if pts:
            ok = ok and _cache_matches(ser.xpath("./c:xVal/c:numRef")[0], sh, True)
            ok = ok and _cache_matches(ser.xpath("./c:yVal/c:numRef")[0], sh, True)
            if bubble:
                ok = ok and _cache_matches(ser.xpath("./c:bubbleSize/c:numRef")[0], sh, True)
    return ok


def _xml_agrees_with_sheet(root, sh, kind):
    ok = True
    for ser in root.xpath(".//c:ser"):
        ok = ok and _cache_matches(ser.xpath("./c:tx/c:strRef")[0], sh, False)
        if kind == 0:
            ok = ok and _cache_matches(ser.xpath("./c:val/c:numRef")[0], sh, True)
            ok = ok and _cache_matches(ser.xpath("./c:cat/c:strRef")[0], sh, False)
        else:
            ok = ok and _cache_matches(ser.xpath("./c:xVal/c:numRef")[0], sh, True)
            ok = ok and _cache_matches(ser.xpath("./c:yVal/c:numRef")[0], sh, True)
            if kind == 2:
                ok = ok and _cache_matches(ser.xpath("./c:bubbleSize/c:numRef")[0], sh, True)
    return ok


def _make_data(kind, ns, npts, tag):
    if kind == 0:
        cd = CategoryChartData()
        cd.categories = ["%sc%d" % (tag, i) for i in range(npts)]
        for s in range(ns):
            cd.add_series("%sS%d" % (tag, s), [VALS[(s * 3 + i) % 9] for i in range(npts)])
        return cd
    cd = BubbleChartData() if kind == 2 else XyChartData()
    for s in range(ns):
        ser = cd.add_series("%sS%d" % (tag, s))
        for i in range(npts):
            if kind == 2:
                ser.add_data_point(float(10 * s + i), VALS[(s * 3 + i) % 9], float(100 + i))
            else:
                ser.add_data_point(float(10 * s + i), VALS[(s * 3 + i) % 9])
    return cd


@cond(timeout=900, encodes=ENC + ["pptx.chart.xmlwriter:_BaseSeriesXmlRewriter.replace_series_data", "pptx.chart.xmlwriter:_BaseSeriesXmlRewriter._adjust_ser_count",
                                  "pptx.chart.xmlwriter:_BaseSeriesXmlRewriter._add_cloned_sers", "pptx.chart.xmlwriter:_BaseSeriesXmlRewriter._trim_ser_count_by",
                                  "pptx.chart.xmlwriter:_CategorySeriesXmlRewriter._rewrite_ser_data", "pptx.chart.xmlwriter:_XySeriesXmlRewriter._rewrite_ser_data",
                                  "pptx.chart.xmlwriter:_BubbleSeriesXmlRewriter._rewrite_ser_data"],
      bound="replace_data on a generated chart (category bar / XY / bubble; choice variable) that has n0 in 1..3 series of p0 in 1..3 "
            "points, with new data of n1 in 1..3 series of p1 in 1..3 points (growing, shrinking, same): every reference and cache in the "
            "rewritten XML designates the cells the real workbook writer writes for the new data")
def replace_data_refs_designate_written_cells(kind: int, n0: int, p0: int, n1: int, p1: int) -> bool:
    """
    pre: 0 <= kind <= 2 and 1 <= n0 <= 3 and 1 <= p0 <= 3 and 1 <= n1 <= 3 and 1 <= p1 <= 3
    post: _
    """
    from pptx.chart.xmlwriter import SeriesXmlRewriterFactory

    ct = choose([XL_CHART_TYPE.BAR_CLUSTERED, XL_CHART_TYPE.XY_SCATTER, XL_CHART_TYPE.BUBBLE], kind)
    old = _make_data(kind, n0, p0, "o")
    root = parse_xml(untraced_call(ChartXmlWriter, ct, old).xml.encode("utf-8"))
    new = _make_data(kind, n1, p1, "n")
    SeriesXmlRewriterFactory(ct, new).replace_series_data(root)
    sh = _Sheet()
    new._workbook_writer._populate_worksheet(_Workbook(), sh)
    return len(root.xpath(".//c:ser")) == n1 and _xml_agrees_with_sheet(root, sh, kind)


@cond(expect="refute", timeout=300, twin_of="xy_refs_designate_written_cells")
def xy_refs_twin(l0: int, l1: int, l2: int) -> bool:
    """
    pre: 0 <= l0 <= 3 and 0 <= l1 <= 3 and 0 <= l2 <= 3
    post: _
    """
    cd = XyChartData()
    for s, n in enumerate((l0, l1, l2)):
        ser = cd.add_series("S%d" % s)
        for i in range(n):
            ser.add_data_point(float(i), 1.0)
    w = XyWorkbookWriter(cd)
    return w.y_values_ref(list(cd)[2]) != "Sheet1!$B$10:$B$11"


# ------------------------------------------------------------------ serial dates
EPOCH_1900 = datetime.date(1899, 12, 31).toordinal()
EPOCH_1904 = datetime.date(1904, 1, 1).toordinal()
ORD_MIN = datetime.date(1900, 1, 1).toordinal()
ORD_MAX = datetime.date(9999, 12, 31).toordinal()


class _Delta:
    def __init__(self, days):
        self.days = days


class _OrdDate:
    """Stand-in for datetime.date whose proleptic ordinal is the symbolic variable (year/month/day stay opaque):
    date(y, m, d) - date(y', m', d') = timedelta(days = ordinal difference), which is datetime's contract."""

    def __init__(self, year, month=None, day=None):
        if isinstance(year, _Token):
            self.ordinal = year.ordinal
        else:
            self.ordinal = datetime.date(year, month, day).toordinal()

    def __sub__(self, other):
        return _Delta(self.ordinal - other.ordinal)


class _Token:
    def __init__(self, ordinal):
        self.ordinal = ordinal


class _Label:
    def __init__(self, ordinal):
        self.year = _Token(ordinal)
        self.month = None
        self.day = None


class _FakeDatetime:
    date = _OrdDate
    datetime = datetime.datetime


class _Cat:
    def __init__(self, label):
        self._label = label


def _check_spec_against_xlsxwriter():
    from xlsxwriter.utility import _datetime_to_excel_datetime

    for d in (datetime.date(1900, 1, 1), datetime.date(1900, 2, 28), datetime.date(1900, 3, 1), datetime.date(1904, 1, 1),
              datetime.date(1904, 1, 2), datetime.date(2016, 12, 27), datetime.date(9999, 12, 31)):
        for d1904 in (False, True):
            if d1904 and d < datetime.date(1904, 1, 1):
                continue
            n = d.toordinal()
            spec = n - EPOCH_1904 if d1904 else (n - EPOCH_1900 + (1 if n - EPOCH_1900 > 59 else 0))
            assert float(spec) == _datetime_to_excel_datetime(d, d1904, True), (d, d1904)


_check_spec_against_xlsxwriter()


@cond(timeout=120, encodes=ENC,
      bound="date category labels: proleptic ordinal n of every date 1900-01-01..9999-12-31 (value variable), both date systems; "
            "expected serial = n - epoch (+1 after 1900-02-28 in the 1900 system), the arithmetic xlsxwriter applies to the cell "
            "(checked concretely against xlsxwriter on 7 boundary dates at import)")
def excel_date_number(n: int, d1904: bool) -> bool:
    """
    pre: ORD_MIN <= n <= ORD_MAX
    post: _
    """
    saved = D.datetime
    D.datetime = _FakeDatetime
    try:
        got = D.Category._excel_date_number(_Cat(_Label(n)), d1904)
    finally:
        D.datetime = saved
    want = n - EPOCH_1904 if d1904 else (n - EPOCH_1900 + (1 if n - EPOCH_1900 > 59 else 0))
    return got == want


@cond(expect="refute", timeout=60, twin_of="excel_date_number")
def excel_date_number_twin(n: int) -> bool:
    """
    pre: ORD_MIN <= n <= ORD_MAX
    post: _
    """
    saved = D.datetime
    D.datetime = _FakeDatetime
    try:
        got = D.Category._excel_date_number(_Cat(_Label(n)), False)
    finally:
        D.datetime = saved
    return got != 61
