"""C14 -- tables stay rectangular and merges consistent. DESIGN.md section 6, C14.
One merge / split step from an arbitrary pre-state satisfying the representation invariant (induction over histories)."""
from kit.env import *  # noqa

setup()

from pptx.oxml.table import CT_Table  # noqa: E402
from pptx.table import Table, _Cell  # noqa: E402

N = 4 if THOROUGH else 3  # grid is N x N
ENC = ["pptx.table:_Cell.merge", "pptx.table:_Cell.split", "pptx.table:_Cell.is_merge_origin", "pptx.table:_Cell.is_spanned",
       "pptx.table:_Cell.span_height", "pptx.table:_Cell.span_width", "pptx.oxml.table:TcRange.contains_merged_cell",
       "pptx.oxml.table:TcRange.dimensions", "pptx.oxml.table:TcRange.in_same_table", "pptx.oxml.table:TcRange.move_content_to_origin",
       "pptx.oxml.table:TcRange._extents", "pptx.oxml.table:TcRange.from_merge_origin", "pptx.oxml.table:CT_TableCell.append_ps_from",
       "pptx.oxml.table:CT_TableCell.is_merge_origin", "pptx.oxml.table:CT_TableCell.is_spanned", "pptx.oxml.table:CT_Table.new_tbl"]
_TEMPLATE = {}


def _mk(text=False):
    """Fresh N x N table (optionally with the fixed cell texts); templates are built once at import, outside tracing."""
    import copy

    return copy.deepcopy(_TEMPLATE[text])


def _paint(tbl, top, left, h, w):
    """Reference painter of a merged region (the representation invariant), independent of the code under test."""
    for r in range(top, top + h):
        for c in range(left, left + w):
            tc = tbl.tc(r, c)
            tc.gridSpan = w if c == left else 1
            tc.rowSpan = h if r == top else 1
            tc.hMerge = c > left
            tc.vMerge = r > top


def _flags(tbl):
    return [[(tc.gridSpan, tc.rowSpan, bool(tc.hMerge), bool(tc.vMerge)) for tc in tr.tc_lst] for tr in tbl.tr_lst]


def _expected(regions):
    want = [[(1, 1, False, False) for _ in range(N)] for _ in range(N)]
    for (top, left, h, w) in regions:
        if h * w <= 1:
            continue
        for r in range(top, top + h):
            for c in range(left, left + w):
                want[r][c] = (w if c == left else 1, h if r == top else 1, c > left, r > top)
    return want


def _overlap(a, b):
    return not (a[0] + a[2] <= b[0] or b[0] + b[2] <= a[0] or a[1] + a[3] <= b[1] or b[1] + b[3] <= a[1])


def _fill_text(tbl):
    for r in range(N):
        for c in range(N):
            if (r + c) % 3 != 2:  # some cells stay empty
                _Cell(tbl.tc(r, c), None).text = "r%dc%d" % (r, c)


_TEMPLATE[False] = CT_Table.new_tbl(N, N, 3000 * N, 1000 * N)
_TEMPLATE[True] = CT_Table.new_tbl(N, N, 3000 * N, 1000 * N)
_fill_text(_TEMPLATE[True])
TEXTS = [[_Cell(_TEMPLATE[True].tc(r, c), None).text for c in range(N)] for r in range(N)]


def _api_view_ok(tbl, regions):
    ok = True
    for r in range(N):
        for c in range(N):
            cell = _Cell(tbl.tc(r, c), None)
            reg = [g for g in regions if g[2] * g[3] > 1 and g[0] <= r < g[0] + g[2] and g[1] <= c < g[1] + g[3]]
            if not reg:
                ok = ok and not cell.is_merge_origin and not cell.is_spanned
            else:
                g = reg[0]
                origin = (r, c) == (g[0], g[1])
                ok = ok and cell.is_merge_origin == origin and cell.is_spanned == (not origin)
                if origin:
                    ok = ok and cell.span_height == g[2] and cell.span_width == g[3]
    return ok


_MERGE = '''
@cond(timeout={to}, encodes=ENC, tiers={tiers!r},
      bound="{n} x {n} table; pre-state: {pre_desc}; one merge with corner cells (r1, c1), (r2, c2) in any orientation "
            "((r1, c1) fixed to ({r1}, {c1}) in this split, the other corner symbolic over the grid): flags/spans as the invariant demands, refused "
            "merges (overlap) raise ValueError and change nothing, origin text = texts of the range in reading order")
def merge_step_r{r1}c{c1}_{tag}(r2: int, c2: int, pt: int, pl: int, ph: int, pw: int) -> bool:
    """
    pre: 0 <= r2 < N and 0 <= c2 < N
    pre: {pre_cond}
    post: _
    """
    r1, c1 = {r1}, {c1}
    tbl = _mk(text=True)
    pre = (pt, pl, ph, pw)
    regions = []
    if ph * pw > 1:
        _paint(tbl, pt, pl, ph, pw)
        regions.append(pre)
    before = _flags(tbl)
    texts = TEXTS
    new = (min(r1, r2), min(c1, c2), abs(r1 - r2) + 1, abs(c1 - c2) + 1)
    try:
        _Cell(tbl.tc(r1, c1), None).merge(_Cell(tbl.tc(r2, c2), None))
    except ValueError:
        return bool(regions) and _overlap(new, pre) and _flags(tbl) == before and all(len(tr.tc_lst) == N for tr in tbl.tr_lst)
    if regions and _overlap(new, pre):
        return False
    regions.append(new)
    ok = _flags(tbl) == _expected(regions) and all(len(tr.tc_lst) == N for tr in tbl.tr_lst) and _api_view_ok(tbl, regions)
    rng = [texts[r][c] for r in range(new[0], new[0] + new[2]) for c in range(new[1], new[1] + new[3])]
    want = "\\n".join(t for t in rng if t != "")
    return ok and _Cell(tbl.tc(new[0], new[1]), None).text == want
'''
_PRE_NONE = ("no merged region", "pt == 0 and pl == 0 and ph == 1 and pw == 1")
_PRE_ONE = ("one merged rectangle with symbolic position and size (h*w > 1)",
            "0 <= pt and 0 <= pl and 1 <= ph and 1 <= pw and pt + ph <= N and pl + pw <= N and ph * pw > 1")
for _r1 in range(4):
    for _c1 in range(4):
        if _r1 < 3 and _c1 < 3:
            gen(_MERGE.format(r1=_r1, c1=_c1, tag="clean", n=3, to=300, tiers=("quick",), pre_desc=_PRE_NONE[0], pre_cond=_PRE_NONE[1]), globals())
            gen(_MERGE.format(r1=_r1, c1=_c1, tag="one", n=3, to=900, tiers=("quick",), pre_desc=_PRE_ONE[0], pre_cond=_PRE_ONE[1]), globals())
        gen(_MERGE.format(r1=_r1, c1=_c1, tag="clean4", n=4, to=1200, tiers=("thorough",), pre_desc=_PRE_NONE[0], pre_cond=_PRE_NONE[1]), globals())
        gen(_MERGE.format(r1=_r1, c1=_c1, tag="one4", n=4, to=3000, tiers=("thorough",), pre_desc=_PRE_ONE[0], pre_cond=_PRE_ONE[1]), globals())


@cond(expect="refute", timeout=300, twin_of="merge_step_r2c0_one")
def merge_twin(c1: int, r2: int, c2: int, pt: int, pl: int, ph: int, pw: int) -> bool:
    """
    pre: 0 <= c1 < N and 0 <= r2 < N and 0 <= c2 < N
    pre: 0 <= pt and 0 <= pl and 1 <= ph and 1 <= pw and pt + ph <= N and pl + pw <= N and ph * pw > 1
    post: _
    """
    tbl = _mk()
    _paint(tbl, pt, pl, ph, pw)
    try:
        _Cell(tbl.tc(2, c1), None).merge(_Cell(tbl.tc(r2, c2), None))
    except ValueError:
        return True
    # reach: an accepted 2-cell merge next to an existing 2x2 region
    return not (ph == 2 and pw == 2 and abs(2 - r2) + abs(c1 - c2) == 1)


@cond(timeout=900, encodes=ENC,
      bound="N x N table (3 quick / 4 thorough) holding one merged rectangle with symbolic position and size; split() on any "
            "cell (symbolic): a non-origin cell raises ValueError and changes nothing; the origin restores independent cells")
def split_step(r: int, c: int, pt: int, pl: int, ph: int, pw: int) -> bool:
    """
    pre: 0 <= r < N and 0 <= c < N
    pre: 0 <= pt and 0 <= pl and 1 <= ph and 1 <= pw and pt + ph <= N and pl + pw <= N and ph * pw > 1
    post: _
    """
    tbl = _mk()
    _paint(tbl, pt, pl, ph, pw)
    before = _flags(tbl)
    try:
        _Cell(tbl.tc(r, c), None).split()
    except ValueError:
        return (r, c) != (pt, pl) and _flags(tbl) == before
    return (r, c) == (pt, pl) and _flags(tbl) == _expected([]) and _api_view_ok(tbl, [])


@cond(timeout=300, encodes=ENC,
      bound="merge across two different tables (symbolic cells of two 3x3 tables): ValueError, both tables unchanged")
def merge_across_tables_refused(r1: int, c1: int, r2: int, c2: int) -> bool:
    """
    pre: 0 <= r1 < N and 0 <= c1 < N and 0 <= r2 < N and 0 <= c2 < N
    post: _
    """
    t1, t2 = _mk(), _mk()
    try:
        _Cell(t1.tc(r1, c1), None).merge(_Cell(t2.tc(r2, c2), None))
    except ValueError:
        return _flags(t1) == _expected([]) and _flags(t2) == _expected([])
    return False


# ------------------------------------------------------------------ creation and frame size
@cond(timeout=300, encodes=["pptx.oxml.table:CT_Table.new_tbl"],
      bound="rows, cols symbolic 1..4; width, height every int in 0..10^9: each row has `cols` cells, column widths sum to "
            "width, row heights to height, none negative")
def new_table_is_rectangular(rows: int, cols: int, width: int, height: int) -> bool:
    """
    pre: 1 <= rows <= 4 and 1 <= cols <= 4 and 0 <= width <= 10**9 and 0 <= height <= 10**9
    post: _
    """
    tbl = CT_Table.new_tbl(rows, cols, width, height)
    ws = [gc.w for gc in tbl.tblGrid.gridCol_lst]
    hs = [tr.h for tr in tbl.tr_lst]
    return (len(ws) == cols and len(hs) == rows and all(len(tr.tc_lst) == cols for tr in tbl.tr_lst)
            and sum(ws) == width and sum(hs) == height and all(w >= 0 for w in ws) and all(h >= 0 for h in hs))


@cond(expect="refute", timeout=120, twin_of="new_table_is_rectangular")
def new_table_twin(rows: int, cols: int, width: int, height: int) -> bool:
    """
    pre: 1 <= rows <= 4 and 1 <= cols <= 4 and 0 <= width <= 10**9 and 0 <= height <= 10**9
    post: _
    """
    tbl = CT_Table.new_tbl(rows, cols, width, height)
    ws = [gc.w for gc in tbl.tblGrid.gridCol_lst]
    return not (cols == 3 and ws[2] == ws[0] + 2)


class _Frame:
    """Stand-in graphic frame: records the width/height the table notifies (contract: plain attributes)."""

    def __init__(self):
        self.width = None
        self.height = None
        self.part = None


@cond(timeout=300, encodes=["pptx.table:_Column.width", "pptx.table:_Row.height", "pptx.table:Table.notify_width_changed",
                            "pptx.table:Table.notify_height_changed"],
      bound="3 x 3 table; one column width or row height (symbolic index) set to any int in 0..10^9: the frame size "
            "reported to the graphic frame equals the sum of the column widths / row heights")
def frame_size_follows_sum(idx: int, v: int, col: bool) -> bool:
    """
    pre: 0 <= idx < 3 and 0 <= v <= 10**9
    post: _
    """
    tbl = CT_Table.new_tbl(3, 3, 9000, 3000)
    fr = _Frame()
    t = Table(tbl, fr)
    if col:
        t.columns[idx].width = v
        return fr.width == sum(c.width for c in t.columns) and t.columns[idx].width == v and fr.height is None
    t.rows[idx].height = v
    return fr.height == sum(r.height for r in t.rows) and t.rows[idx].height == v and fr.width is None
