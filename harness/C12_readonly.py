"""C12 -- inspecting a presentation does not change it. DESIGN.md section 6, C12.
A symbolic (object kind, accessor) pair -- two pairs in the thorough tier -- is applied to a freshly opened real deck; the
package saved afterwards must have the same members as one saved straight after opening, XML equal up to empty,
attribute-less formatting containers."""
from kit.env import *  # noqa

setup()

import inspect  # noqa: E402
import xml.etree.ElementTree as ET  # noqa: E402

from harness import opc_model as M  # noqa: E402
from harness.C02_closure import BASE  # noqa: E402
from pptx import Presentation  # noqa: E402

ENC = ["pptx.presentation:Presentation.slides", "pptx.slide:Slide.shapes", "pptx.slide:Slide.placeholders", "pptx.slide:Slide.has_notes_slide",
       "pptx.shapes.autoshape:Shape.text_frame", "pptx.text.text:TextFrame.paragraphs", "pptx.text.text:_Paragraph.runs",
       "pptx.text.text:_Run.font", "pptx.text.text:Font.color", "pptx.dml.fill:FillFormat.type", "pptx.dml.line:LineFormat.width",
       "pptx.shapes.placeholder:_InheritsDimensions._effective_value", "pptx.parts.slide:NotesSlidePart.notes_master",
       "pptx.parts.presentation:PresentationPart.rename_slide_parts", "pptx.package:Package.core_properties",
       "pptx.opc.package:OpcPackage.save"]
EMPTY_OK = {"pPr", "rPr", "defRPr", "endParaRPr", "tcPr", "ln", "bodyPr", "spPr", "lstStyle", "tblPr", "txPr"}
# accessors documented as creating content (the property's stated exceptions), with the documentation line
CREATING = {
    ("slide", "notes_slide"): "Slide.notes_slide: 'The notes slide is created if not already present'",
    ("presentation", "notes_master"): "Presentation.notes_master: 'If the presentation does not have a notes master, one is created'",
    ("line", "color"): "LineFormat.color: 'As a side-effect, accessing this property causes the line fill type to be set to MSO_FILL.SOLID'",
}


def _no_notes_master_rel(members):
    """Variant deck: the presentation part has no notes-master relationship (the notes slide still has its own)."""
    out = dict(members)
    name = "ppt/_rels/presentation.xml.rels"
    rels = [r for r in M.read_rels(out[name]) if not r[1].endswith("/notesMaster")]
    out[name] = M.rels_xml(rels)
    blob = out["ppt/presentation.xml"]
    i, j = blob.find(b"<p:notesMasterIdLst"), blob.find(b"</p:notesMasterIdLst>")
    if i >= 0 and j >= 0:
        out["ppt/presentation.xml"] = blob[:i] + blob[j + len(b"</p:notesMasterIdLst>"):]
    return out


def _partial_xfrm(members):
    """Variant deck: the title placeholder of the first slide overrides its position only (a:xfrm with a:off but no a:ext, what
    `ph.left = ...; ph.top = ...` leaves behind), so its size is still inherited."""
    prs = Presentation(M.MemFile(dict(members)))
    ph = prs.slides[0].shapes[0]
    ph.left, ph.top = 111111, 222222
    mf = M.MemFile()
    prs.save(mf)
    return dict(mf.members)


DECKS = [BASE, _no_notes_master_rel(BASE), _partial_xfrm(BASE)]


def _prune(e):
    for c in list(e):
        _prune(c)
        if len(c) == 0 and not c.attrib and not (c.text or "").strip() and c.tag.split("}")[-1] in EMPTY_OK:
            e.remove(c)


def _canon(e):
    return (e.tag, tuple(sorted(e.attrib.items())), (e.text or "").strip(), tuple(_canon(c) for c in e))


def _snapshot(mf):
    out = {}
    for name, blob in mf.members.items():
        if name.endswith(".xml") or name.endswith(".rels"):
            root = ET.fromstring(blob)
            _prune(root)
            out[name] = _canon(root)
        else:
            out[name] = blob
    return out


def _saved(prs):
    mf = M.MemFile()
    prs.save(mf)
    return _snapshot(mf)


def _objects(prs):
    """The object of each kind a traversal reaches (first of its kind in the deck)."""
    slide = prs.slides[0]
    slide2 = prs.slides[1]
    shape = slide.shapes[1]
    tf = shape.text_frame
    para = tf.paragraphs[0]
    run = para.runs[0]
    return {
        "presentation": prs, "slide": slide, "slide_with_notes": slide2, "layout": prs.slide_layouts[1], "master": prs.slide_master,
        "shapes": slide.shapes, "placeholders": slide.placeholders, "shape": shape, "title_shape": slide.shapes[0],
        "text_frame": tf, "paragraph": para, "run": run, "font": run.font, "hyperlink": run.hyperlink,
        "fill": shape.fill, "line": shape.line, "shadow": shape.shadow,
        "notes_slide": slide2.notes_slide, "notes_placeholder": slide2.notes_slide.placeholders[1],
        "notes_text_frame": slide2.notes_slide.notes_text_frame, "core_properties": prs.core_properties,
        "placeholder_format": slide.shapes[0].placeholder_format, "layout_placeholder": prs.slide_layouts[1].placeholders[0],
        "master_placeholder": prs.slide_master.placeholders[0],
    }


def _discover():
    prs = Presentation(M.MemFile(dict(BASE)))
    objs = _objects(prs)
    out = []
    for kind in sorted(objs):
        cls = type(objs[kind])
        for name in sorted(dir(cls)):
            if name.startswith("_") or (kind, name) in CREATING or (kind.split("_")[0], name) in CREATING:
                continue
            if excluded("read_does_not_change", kind=kind, name=name):
                continue  # listed known finding (replayed separately on every run)
            attr = inspect.getattr_static(cls, name)
            if isinstance(attr, property) or type(attr).__name__ == "lazyproperty":
                out.append((kind, name))
    return out


ACCESSORS = _discover()
BASELINES = []
for _d in DECKS:
    # the reference is the deck saved after opening and touching the slide collection once: that access renames slide parts
    # to slide1..n, which is documented behaviour (see C06) and the only difference from a save straight after opening
    _p = Presentation(M.MemFile(dict(_d)))
    len(_p.slides)
    BASELINES.append(_saved(_p))
NCHUNK = 8


def _touch(obj, name):
    """Read the accessor and look into the result the way a traversal would."""
    try:
        v = getattr(obj, name)
    except (ValueError, TypeError, NotImplementedError, AttributeError, KeyError, IndexError):
        return  # an accessor may be undefined for this object (documented exceptions); it must still not change anything
    try:
        if isinstance(v, (str, bytes, int, float, bool)) or v is None:
            return
        it = iter(v)
    except TypeError:
        return
    n = 0
    for x in it:
        n += 1
        if n >= 3:
            break


def _diff(a, b):
    if set(a) != set(b):
        return "members differ: %s" % sorted(set(a) ^ set(b))
    return "changed: %s" % [k for k in a if a[k] != b[k]]


_ONE = '''
@cond(timeout=1800, encodes=ENC,
      bound="deck in [base deck, base deck without a presentation-level notes-master relationship, base deck with a placeholder that overrides its position only] x every read-only accessor "
            "(property) of %d object kinds discovered by introspection, %d (kind, accessor) pairs, chunk {k}/%d (symbolic index): the "
            "package saved after the read equals the package saved straight after opening, up to empty attribute-less containers; "
            "accessors documented as creating content (%s) are excluded" % (len(set(k for k, _ in ACCESSORS)), len(ACCESSORS), NCHUNK, sorted(CREATING)))
def read_does_not_change_{k}(i: int, d: int) -> bool:
    """
    pre: 0 <= i < len(ACCESSORS) and i % NCHUNK == {k} and 0 <= d < len(DECKS)
    post: _
    """
    kind, name = ACCESSORS[i]
    prs = Presentation(M.MemFile(dict(DECKS[d])))
    _touch(_objects(prs)[kind], name)
    after = _saved(prs)
    if after != BASELINES[d]:
        detail(globals(), "reading %s.%s on deck %d: %s", kind, name, d, _diff(BASELINES[d], after))
        return False
    return True
'''
for _k in range(NCHUNK):
    gen(_ONE.format(k=_k), globals())


_TWO = '''
@cond(timeout=3000, encodes=ENC, tiers=("thorough",),
      bound="deck variant {d}: two accessors in sequence (symbolic indices: first every 13th pair, second every 11th), with a save in between")
def two_reads_do_not_change_{d}(i: int, j: int) -> bool:
    """
    pre: 0 <= i < len(ACCESSORS) and 0 <= j < len(ACCESSORS) and j % 11 == 3 and i % 13 == 1
    post: _
    """
    prs = Presentation(M.MemFile(dict(DECKS[{d}])))
    objs = _objects(prs)
    _touch(objs[ACCESSORS[i][0]], ACCESSORS[i][1])
    mid = _saved(prs)
    _touch(objs[ACCESSORS[j][0]], ACCESSORS[j][1])
    return mid == BASELINES[{d}] and _saved(prs) == BASELINES[{d}]
'''
for _d in range(len(DECKS)):
    gen(_TWO.format(d=_d), globals())


@cond(expect="refute", timeout=600, twin_of="read_does_not_change_0")
def read_twin(i: int) -> bool:
    """
    pre: 0 <= i < len(ACCESSORS)
    post: _
    """
    kind, name = ACCESSORS[i]
    prs = Presentation(M.MemFile(dict(BASE)))
    _touch(_objects(prs)[kind], name)
    return not (kind == "notes_placeholder" and name == "left")


def font_color_witness():
    """Replay of known finding C12-font-color (False while it reproduces)."""
    prs = Presentation(M.MemFile(dict(BASE)))
    objs = _objects(prs)
    objs["font"].color
    return _saved(prs) == BASELINES[0]
