"""C13 -- a new slide mirrors its layout's placeholders and inherits their geometry. DESIGN.md section 6, C13."""
from kit.env import *  # noqa

setup()

from harness import opc_model as M  # noqa: E402
from harness.C02_closure import BASE  # noqa: E402  (default template reduced to 3 layouts + 2 slides, as bytes)
from pptx import Presentation  # noqa: E402
from pptx.enum.shapes import PP_PLACEHOLDER  # noqa: E402
from pptx.oxml.shapes.autoshape import CT_Shape  # noqa: E402

ENC = ["pptx.slide:Slides.add_slide", "pptx.shapes.shapetree:SlideShapes.clone_layout_placeholders",
       "pptx.shapes.shapetree:_BaseShapes.clone_placeholder", "pptx.shapes.shapetree:_BaseShapes._next_ph_name",
       "pptx.slide:SlideLayout.iter_cloneable_placeholders", "pptx.oxml.shapes.autoshape:CT_Shape.new_placeholder_sp",
       "pptx.shapes.placeholder:_InheritsDimensions._effective_value", "pptx.shapes.placeholder:_InheritsDimensions._inherited_value",
       "pptx.shapes.placeholder:_BaseSlidePlaceholder._base_placeholder", "pptx.shapes.placeholder:LayoutPlaceholder._base_placeholder",
       "pptx.parts.presentation:PresentationPart.add_slide", "pptx.parts.slide:SlidePart.new", "pptx.slide:NotesSlide.clone_master_placeholders"]
TYPES = [PP_PLACEHOLDER.TITLE, PP_PLACEHOLDER.BODY, PP_PLACEHOLDER.PICTURE, PP_PLACEHOLDER.DATE, PP_PLACEHOLDER.FOOTER,
         PP_PLACEHOLDER.OBJECT, PP_PLACEHOLDER.SLIDE_NUMBER, PP_PLACEHOLDER.CHART]
LATENT = (PP_PLACEHOLDER.DATE, PP_PLACEHOLDER.FOOTER, PP_PLACEHOLDER.SLIDE_NUMBER)
MASTER_TYPE = {PP_PLACEHOLDER.TITLE: PP_PLACEHOLDER.TITLE, PP_PLACEHOLDER.BODY: PP_PLACEHOLDER.BODY, PP_PLACEHOLDER.PICTURE: PP_PLACEHOLDER.BODY,
               PP_PLACEHOLDER.OBJECT: PP_PLACEHOLDER.BODY, PP_PLACEHOLDER.CHART: PP_PLACEHOLDER.BODY, PP_PLACEHOLDER.DATE: PP_PLACEHOLDER.DATE,
               PP_PLACEHOLDER.FOOTER: PP_PLACEHOLDER.FOOTER, PP_PLACEHOLDER.SLIDE_NUMBER: PP_PLACEHOLDER.SLIDE_NUMBER}
GMAX = 10**7


def _geom(sh):
    return (sh.left, sh.top, sh.width, sh.height)


def _case(specs, colliding_name):
    """specs: list of (type index, vertical?, has own xfrm?, x, y, cx, cy) -- the layout's whole placeholder population."""
    prs = Presentation(M.MemFile(dict(BASE)))
    layout = prs.slide_layouts[2]
    spTree = layout._element.cSld.spTree
    for sp in list(spTree.iter_ph_elms()):
        spTree.remove(sp)
    for n, (ti, vert, own, x, y, cx, cy) in enumerate(specs):
        t = TYPES[ti]
        idx = 0 if t == PP_PLACEHOLDER.TITLE else 10 + n
        sp = CT_Shape.new_placeholder_sp(50 + n, "L%d" % n, t, "vert" if vert else "horz", "half" if n % 2 else "full", idx)
        if own:
            sp.x, sp.y, sp.cx, sp.cy = x, y, cx, cy
        spTree.insert_element_before(sp, "p:extLst")
    master = {ph.placeholder_format.type: _geom(ph) for ph in prs.slide_master.placeholders}
    old = [(s.slide_id, [sh.name for sh in s.shapes], s.part.partname) for s in prs.slides]
    slide = prs.slides.add_slide(layout)
    if colliding_name:
        pass
    want = [(n, s) for n, s in enumerate(specs) if TYPES[s[0]] not in LATENT]
    got = list(slide.placeholders)
    got_xml_order = [sh for sh in slide.shapes if sh.is_placeholder]
    if len(got_xml_order) != len(want):
        return False
    ok = True
    names = [sh.name for sh in slide.shapes]
    ok = ok and len(set(names)) == len(names)
    for sh, (n, (ti, vert, own, x, y, cx, cy)) in zip(got_xml_order, want):
        t = TYPES[ti]
        pf = sh.placeholder_format
        ph = sh._element.ph
        ok = ok and pf.type == t and pf.idx == (0 if t == PP_PLACEHOLDER.TITLE else 10 + n)
        ok = ok and ph.orient == ("vert" if vert else "horz") and ph.sz == ("half" if n % 2 else "full")
        expect = (x, y, cx, cy) if own else master.get(MASTER_TYPE[t], (None, None, None, None))
        ok = ok and _geom(sh) == expect
    ok = ok and prs.slides[len(prs.slides) - 1].slide_id == slide.slide_id and slide.slide_layout is layout
    ok = ok and [(s.slide_id, [sh.name for sh in s.shapes], s.part.partname) for s in prs.slides][:-1] == old
    return ok


_C13 = '''
@cond(timeout=1200, encodes=ENC,
      bound="layout with 2 placeholders: first of type {tname} (fixed in this split), second of any of 8 types (title, body, picture, "
            "date, footer, object, slide number, chart); each horizontal or vertical, with its own position/size (every int in "
            "0..10^7) or none (inherits the master's); title at most once; the slide gets one placeholder per non-latent one with the "
            "same type, idx, orientation and size in the same order, unique names, the counterpart's geometry; it becomes the last "
            "slide, is related to that layout, the other slides are unchanged")
def new_slide_mirrors_layout_{t0}(v0: bool, o0: bool, t1: int, v1: bool, o1: bool, x: int, y: int, cx: int, cy: int) -> bool:
    """
    pre: 0 <= t1 < len(TYPES) and not ({t0} == 0 and t1 == 0)
    pre: 0 <= x <= GMAX and 0 <= y <= GMAX and 0 <= cx <= GMAX and 0 <= cy <= GMAX
    post: _
    """
    return _case([({t0}, v0, o0, x, y, cx, cy), (t1, v1, o1, y, x, cy, cx)], False)
'''
for _t0 in range(len(TYPES)):
    gen(_C13.format(t0=_t0, tname=TYPES[_t0].name.lower()), globals())


@cond(timeout=3000, encodes=ENC, tiers=("thorough",),
      bound="layout with 3 placeholders of symbolic types (8 each), all horizontal, own geometry for the middle one only")
def new_slide_mirrors_layout_three(t0: int, t1: int, t2: int, x: int, y: int, cx: int, cy: int) -> bool:
    """
    pre: 0 <= t0 < len(TYPES) and 0 <= t1 < len(TYPES) and 0 <= t2 < len(TYPES) and [t0, t1, t2].count(0) <= 1
    pre: 0 <= x <= GMAX and 0 <= y <= GMAX and 0 <= cx <= GMAX and 0 <= cy <= GMAX
    post: _
    """
    return _case([(t0, False, False, 0, 0, 0, 0), (t1, False, True, x, y, cx, cy), (t2, False, False, 0, 0, 0, 0)], False)


@cond(expect="refute", timeout=300, twin_of="new_slide_mirrors_layout_1")
def new_slide_twin(t1: int, o1: bool, x: int) -> bool:
    """
    pre: 0 <= t1 < len(TYPES) and 0 <= x <= GMAX
    post: _
    """
    prs = Presentation(M.MemFile(dict(BASE)))
    layout = prs.slide_layouts[2]
    spTree = layout._element.cSld.spTree
    for sp in list(spTree.iter_ph_elms()):
        spTree.remove(sp)
    sp = CT_Shape.new_placeholder_sp(50, "L0", TYPES[t1], "horz", "full", 10)
    if o1:
        sp.x, sp.y, sp.cx, sp.cy = x, 1, 2, 3
    spTree.insert_element_before(sp, "p:extLst")
    slide = prs.slides.add_slide(layout)
    phs = list(slide.placeholders)
    return not (len(phs) == 1 and phs[0].left == 77 and TYPES[t1] == PP_PLACEHOLDER.CHART)


@cond(timeout=600, encodes=ENC,
      bound="notes slide of a slide (notes master = default): it gets exactly the notes master's slide-image, body and slide-number "
            "placeholders, in the master's order, with unique names; which slide (2 choices) is symbolic")
def notes_slide_mirrors_notes_master(k: int) -> bool:
    """
    pre: 0 <= k < 2
    post: _
    """
    prs = Presentation(M.MemFile(dict(BASE)))
    slide = prs.slides[k]
    existed = slide.has_notes_slide
    ns = slide.notes_slide
    master = prs.notes_master
    want = [ph.placeholder_format.type for ph in master.placeholders
            if ph.placeholder_format.type in (PP_PLACEHOLDER.SLIDE_IMAGE, PP_PLACEHOLDER.BODY, PP_PLACEHOLDER.SLIDE_NUMBER)]
    got = [sh.placeholder_format.type for sh in ns.shapes if sh.is_placeholder]
    names = [sh.name for sh in ns.shapes]
    return (existed or got == want) and len(set(names)) == len(names) and slide.has_notes_slide
