"""C11 -- accepted attribute values are exactly those the schema can represent. DESIGN.md section 6, C11.

X (CrossHair): every integer-input simple type, v over ALL ints (DecStr makes int(str(v)) == v exact);
               reading of plain-integer, percent and boolean lexical forms; attribute setter atomicity.
S (z3 QF_FP) : float-input kernels translated from the live class source by kit/fpsmt.py.
S (z3)       : string enumerations against the XSD enumeration facets.
"""
from kit.env import *  # noqa

setup()

import inspect  # noqa: E402

import pptx.oxml.simpletypes as ST  # noqa: E402
from kit import xsdmodel as X  # noqa: E402

S = X.schemas()
XSD_BUILTIN = {"XsdInt": "int", "XsdLong": "long", "XsdUnsignedByte": "unsignedByte", "XsdUnsignedInt": "unsignedInt",
               "XsdUnsignedShort": "unsignedShort"}


def _xsd_int_range(name):
    """Integer range of the XSD counterpart of simple-type class `name` (plain-integer alternative)."""
    if name in XSD_BUILTIN:
        return X.BUILTIN_INT_RANGES[XSD_BUILTIN[name]]
    for st in S.find_simple(name):
        for m in S.union_members((st.ns, st.name)):
            if S.kind(m) == "int":
                return S.int_range(m)
    return None


def _classes():
    out = []
    for name, cls in inspect.getmembers(ST, inspect.isclass):
        if cls.__module__ == ST.__name__ and issubclass(cls, ST.BaseSimpleType) and not name.startswith("Base"):
            out.append((name, cls))
    return out


def _input_kind(cls):
    try:
        cls.validate(0.5)
    except TypeError:
        try:
            cls.validate(5)
            return "int"
        except TypeError:
            return "other"
        except ValueError:
            return "int"
    except ValueError:
        return "float"
    except Exception:
        return "other"
    return "float"


INT_CLASSES = {}
FLOAT_CLASSES = {}
UNMATCHED = []
for _n, _c in _classes():
    _k = _input_kind(_c)
    _r = _xsd_int_range(_n)
    if _k == "int" and _r is not None:
        INT_CLASSES[_n] = (_c, _r)
    elif _k == "float" and _r is not None:
        FLOAT_CLASSES[_n] = (_c, _r)
    elif _k in ("int", "float"):
        UNMATCHED.append(_n)

QUANTUM = {"ST_TextSpacingPoint": 126}  # stored in centipoints: 127 EMU per unit


def _lo(r):
    return r[0] if r[0] is not None else -(10**40)


def _hi(r):
    return r[1] if r[1] is not None else 10**40


def _int_type_ok(name, v):
    cls, r = INT_CLASSES[name]
    try:
        s = cls.to_xml(v)
    except (TypeError, ValueError):
        return True  # rejected, with a documented exception type, before anything could be written
    n = int(s)
    if not (_lo(r) <= n <= _hi(r)):
        return False
    back = cls.from_xml(s)
    d = back - v
    return -QUANTUM.get(name, 0) <= d <= QUANTUM.get(name, 0)


def _int_type_accepts(name, v):
    cls, r = INT_CLASSES[name]
    try:
        cls.to_xml(v)
    except (TypeError, ValueError):
        return False
    return True


def _int_read_ok(name, n):
    cls, r = INT_CLASSES[name]
    got = cls.from_xml(str(n))
    if name == "ST_TextSpacingPoint":
        return got == n * 127
    return got == n


_INT = '''
@cond(timeout=60, encodes=["pptx.oxml.simpletypes:{name}.validate", "pptx.oxml.simpletypes:{name}.convert_to_xml",
                           "pptx.oxml.simpletypes:{name}.convert_from_xml", "pptx.oxml.simpletypes:BaseSimpleType.to_xml"],
      bound="v: every Python int (unbounded); XSD plain-integer range {lo}..{hi}")
def write_{name}(v: int) -> bool:
    """
    post: _
    """
    return _int_type_ok("{name}", v)


@cond(expect="refute", timeout=60, twin_of="write_{name}")
def write_{name}_twin(v: int) -> bool:
    """
    post: _
    """
    return not _int_type_accepts("{name}", v)


@cond(timeout=60, encodes=["pptx.oxml.simpletypes:{name}.convert_from_xml"],
      bound="plain-integer lexical form str(n) for every n in the XSD range {lo}..{hi}")
def read_{name}(n: int) -> bool:
    """
    pre: {lo} <= n <= {hi}
    post: _
    """
    return _int_read_ok("{name}", n)
'''
for _n, (_c, _r) in sorted(INT_CLASSES.items()):
    gen(_INT.format(name=_n, lo=_lo(_r), hi=_hi(_r)), globals())


# ------------------------------------------------------------------ percent / boolean lexical alternatives
PCT = {"ST_BubbleScale": (0, 300), "ST_GapAmount": (0, 500), "ST_Overlap": (-100, 100), "ST_LblOffset": (0, 1000)}
_PCT = '''
@cond(timeout=120, encodes=["pptx.oxml.simpletypes:{name}.convert_from_xml", "pptx.oxml.simpletypes:BaseIntType.convert_from_percent_literal"],
      bound="percent lexical form str(n)+'%' for every n in {lo}..{hi} (the XSD pattern of {name}Percent)")
def read_percent_{name}(n: int) -> bool:
    """
    pre: {lo} <= n <= {hi}
    post: _
    """
    return ST.{name}.from_xml(str(n) + "%") == n
'''
for _n, (_a, _b) in PCT.items():
    gen(_PCT.format(name=_n, lo=_a, hi=_b), globals())


@cond(timeout=60, encodes=["pptx.oxml.simpletypes:XsdBoolean.convert_from_xml", "pptx.oxml.simpletypes:XsdBoolean.convert_to_xml",
                           "pptx.oxml.simpletypes:XsdBoolean.validate"],
      bound="reading: every str of length <= 5; xsd:boolean lexical space {true,false,1,0}; writing: both bools")
def boolean_lexical(s: str, b: bool) -> bool:
    """
    pre: len(s) <= 5
    post: _
    """
    from pptx.exc import InvalidXmlError

    valid = s == "true" or s == "false" or s == "1" or s == "0"
    try:
        v = ST.XsdBoolean.from_xml(s)
    except InvalidXmlError:
        return not valid
    w = ST.XsdBoolean.to_xml(b)
    return valid and v == (s == "true" or s == "1") and (w == "1" or w == "0") and ST.XsdBoolean.from_xml(w) == b


@cond(expect="refute", timeout=60, twin_of="boolean_lexical")
def boolean_lexical_twin(s: str) -> bool:
    """
    pre: len(s) <= 5
    post: _
    """
    from pptx.exc import InvalidXmlError

    try:
        return not ST.XsdBoolean.from_xml(s)
    except InvalidXmlError:
        return True


HEX = "0123456789abcdefABCDEF"
HEXALPH = "0x+_ aFg"


@cond(timeout=600, encodes=["pptx.oxml.simpletypes:ST_HexColorRGB.validate", "pptx.oxml.simpletypes:ST_HexColorRGB.convert_to_xml"],
      bound="strings p + 'b7' with p any str of length <= 5 over the alphabet '0x+_ aFg' (hex digits, the prefix/sign/"
            "separator/space characters int(s, 16) tolerates, one non-hex letter): accepted => six hex digits "
            "(s:ST_HexColorRGB = hexBinary of length 3)")
def hex_color(p: str) -> bool:
    """
    pre: len(p) <= 5
    pre: all(c in HEXALPH for c in p)
    post: _
    """
    s = p + "b7"
    try:
        w = ST.ST_HexColorRGB.to_xml(s)
    except (TypeError, ValueError):
        return True
    return len(w) == 6 and all(c in HEX for c in w) and ST.ST_HexColorRGB.from_xml(w).upper() == s.upper()


@cond(expect="refute", timeout=120, twin_of="hex_color")
def hex_color_twin(p: str) -> bool:
    """
    pre: len(p) <= 5
    pre: all(c in HEXALPH for c in p)
    post: _
    """
    try:
        ST.ST_HexColorRGB.to_xml(p + "b7")
    except (TypeError, ValueError):
        return True
    return False


# ------------------------------------------------------------------ setter atomicity (xmlchemy descriptors)
from pptx.oxml import parse_xml  # noqa: E402
from pptx.oxml.ns import nsdecls  # noqa: E402

ENC_ATTR = ["pptx.oxml.xmlchemy:OptionalAttribute._setter", "pptx.oxml.xmlchemy:RequiredAttribute._setter",
            "pptx.oxml.xmlchemy:OptionalAttribute._getter", "pptx.oxml.xmlchemy:RequiredAttribute._getter"]


@cond(timeout=120, encodes=ENC_ATTR + ["pptx.oxml.text:CT_TextCharacterProperties"],
      bound="a:rPr/@sz (OptionalAttribute, ST_TextFontSize): prior value absent or any valid int; assigned value every int or None")
def optional_attr_rejects_before_writing(had: bool, old: int, v: int, none: bool) -> bool:
    """
    pre: 100 <= old <= 400000
    post: _
    """
    rPr = parse_xml("<a:rPr %s/>" % nsdecls("a"))
    if had:
        rPr.sz = old
    before = rPr.get("sz")
    new = None if none else v
    try:
        rPr.sz = new
    except (TypeError, ValueError):
        return rPr.get("sz") == before and (before is None or int(before) == old)
    if new is None:
        return rPr.get("sz") is None and rPr.sz is None
    return 100 <= v <= 400000 and int(rPr.get("sz")) == v and rPr.sz == v


@cond(expect="refute", timeout=60, twin_of="optional_attr_rejects_before_writing")
def optional_attr_twin(old: int, v: int) -> bool:
    """
    pre: 100 <= old <= 400000
    post: _
    """
    rPr = parse_xml("<a:rPr %s/>" % nsdecls("a"))
    rPr.sz = old
    try:
        rPr.sz = v
    except (TypeError, ValueError):
        return False if v > 400000 else True
    return True


@cond(timeout=120, encodes=ENC_ATTR + ["pptx.oxml.presentation:CT_SlideId"],
      bound="p:sldId/@id (RequiredAttribute, ST_SlideId): prior value any valid int; assigned value every int")
def required_attr_rejects_before_writing(old: int, v: int) -> bool:
    """
    pre: 256 <= old <= 2147483647
    post: _
    """
    e = parse_xml('<p:sldId %s id="256" r:id="rId1"/>' % nsdecls("p", "r"))
    e.id = old
    try:
        e.id = v
    except (TypeError, ValueError):
        return int(e.get("id")) == old and e.id == old
    return 256 <= v <= 2147483647 and int(e.get("id")) == v and e.id == v


# ------------------------------------------------------------------ values of another Python type given to an integer type
INT_NAMES = sorted(INT_CLASSES)


def _is_int_literal(s):
    if not isinstance(s, str) or not s:
        return False
    body = s[1:] if s[0] in "+-" else s
    return len(body) > 0 and all(c in "0123456789" for c in body)


@cond(timeout=300, encodes=["pptx.oxml.simpletypes:BaseSimpleType.validate_int", "pptx.oxml.simpletypes:BaseSimpleType.validate_int_in_range",
                            "pptx.oxml.simpletypes:BaseIntType.convert_to_xml", "pptx.oxml.simpletypes:BaseSimpleType.to_xml"],
      bound="every integer simple type (choice variable) x a value of another Python type: every float (finite, symbolic), inf, nan, "
            "every str of length <= 2 over digits and '-', None; the value is rejected with TypeError/ValueError or what is written is an "
            "integer literal inside the XSD range")
def int_type_given_other_python_value(t: int, kind: int, f: float, s: str) -> bool:
    """
    pre: 0 <= t < len(INT_NAMES) and 0 <= kind < 5
    pre: len(s) <= 2 and all(c in "0123456789-" for c in s)
    post: _
    """
    name = choose(INT_NAMES, t)
    cls, r = INT_CLASSES[name]
    v = f if kind == 0 else float("inf") if kind == 1 else float("nan") if kind == 2 else s if kind == 3 else None
    try:
        out = cls.to_xml(v)
    except (TypeError, ValueError):
        return True
    if not _is_int_literal(out):
        detail(globals(), "%s.to_xml(%r) wrote %r", name, v, out)
        return False
    return _lo(r) <= int(out) <= _hi(r)


@cond(expect="refute", timeout=120, twin_of="int_type_given_other_python_value")
def int_type_given_other_python_value_twin(f: float) -> bool:
    """
    post: _
    """
    return not (f == 1371600.0)


LAST_DETAIL = None


# ------------------------------------------------------------------ enumeration-typed attributes: reading the written form
import importlib  # noqa: E402

from pptx.enum.base import BaseXmlEnum  # noqa: E402

XENUMS = []
for _mn in ["pptx.enum.action", "pptx.enum.chart", "pptx.enum.dml", "pptx.enum.lang", "pptx.enum.shapes", "pptx.enum.text"]:
    _mod = importlib.import_module(_mn)
    for _n, _c in sorted(vars(_mod).items()):
        if isinstance(_c, type) and issubclass(_c, BaseXmlEnum) and _c is not BaseXmlEnum and _c.__module__ == _mn and _c.__name__ == _n:
            if [m for m in _c if m.xml_value]:
                XENUMS.append(_c)
XENUM_MEMBERS = {c.__name__: [m for m in c if m.xml_value] for c in XENUMS}
MAX_MEMBERS = max(len(v) for v in XENUM_MEMBERS.values())


@cond(timeout=600, encodes=["pptx.enum.base:BaseXmlEnum.from_xml", "pptx.enum.base:BaseXmlEnum.to_xml", "pptx.enum.base:BaseXmlEnum.validate"],
      bound="every XML-mapped member of every BaseXmlEnum (enumeration and member index are choice variables: exhaustive), listed known "
            "findings (members sharing a token with an earlier member) excluded: the written form reads back as the member written, and a "
            "value that is not a member is rejected by validate()")
def enum_written_form_reads_back(e: int, i: int) -> bool:
    """
    pre: 0 <= e < len(XENUMS) and 0 <= i < MAX_MEMBERS
    post: _
    """
    cls = choose(XENUMS, e)
    ms = XENUM_MEMBERS[cls.__name__]
    if i >= len(ms):
        return True
    m = ms[i]
    if excluded("enum_written_form_reads_back", enum=cls.__name__, member=m.name):
        return True
    s = cls.to_xml(m)
    try:
        cls.validate(s)  # a token string is not a member
        return False
    except (TypeError, ValueError):
        pass
    cls.validate(m)
    return isinstance(s, str) and s != "" and cls.from_xml(s) is m


def enum_dup_witness(enum, member):
    """Replay of the listed known findings C11-enum-dup-* (returns False while they reproduce)."""
    cls = [c for c in XENUMS if c.__name__ == enum][0]
    m = cls[member]
    return cls.from_xml(cls.to_xml(m)) is m
