"""C15 -- images are stored once, byte-exact, with the type and size of the actual image. DESIGN.md section 6, C15.
Pillow (format detection), SHA-1 and the byte path are C code and outside the claim; what is decided here is the Python
arithmetic (native size, aspect-preserving scaling, DPI normalisation) and the de-duplication / naming / typing logic."""
from kit.env import *  # noqa

setup()

from pptx.opc.constants import RELATIONSHIP_TYPE as RT  # noqa: E402
from pptx.opc.package import Part  # noqa: E402
from pptx.opc.packuri import PackURI  # noqa: E402
from pptx.opc.spec import default_content_types, image_content_types  # noqa: E402
from pptx.package import Package, _ImageParts  # noqa: E402
from pptx.parts.image import Image, ImagePart  # noqa: E402

ENC = ["pptx.parts.image:ImagePart.scale", "pptx.parts.image:ImagePart._native_size", "pptx.parts.image:Image.dpi",
       "pptx.parts.image:Image.ext", "pptx.parts.image:Image.content_type", "pptx.parts.image:ImagePart.new",
       "pptx.package:_ImageParts.get_or_add_image_part", "pptx.package:_ImageParts._find_by_sha1", "pptx.package:_ImageParts.__iter__",
       "pptx.package:Package.next_image_partname"]
PX = [1, 3, 640, 4096]
DPI = [1, 72, 300, 2048]
EMU_PER_INCH = 914400


class _Part(ImagePart):
    """ImagePart whose pixel size and dpi are given directly (Pillow is what normally supplies them)."""

    def __init__(self, px, dpi):
        self.__px, self.__dpi = px, dpi

    @property
    def _px_size(self):
        return self.__px

    @property
    def _dpi(self):
        return self.__dpi


GIVEN = [1, 7, 914400, 1000001, 10**9]


@cond(timeout=300, encodes=ENC,
      bound="pixel width/height from [1, 3, 640, 4096], horizontal/vertical dpi from [1, 72, 300, 2048] (symbolic "
            "indices; concrete per path -- int(float quotient) makes z3 time out on symbolic pixel counts): native size = "
            "floor(914400 * px / dpi) per axis")
def native_size_is_pixels_over_dpi(wi: int, hi: int, dx: int, dy: int) -> bool:
    """
    pre: 0 <= wi < len(PX) and 0 <= hi < len(PX) and 0 <= dx < len(DPI) and 0 <= dy < len(DPI)
    post: _
    """
    w, h = choose(PX, wi), choose(PX, hi)
    cx, cy = _Part((w, h), (choose(DPI, dx), choose(DPI, dy)))._native_size
    return (cx * choose(DPI, dx) <= EMU_PER_INCH * w < (cx + 1) * choose(DPI, dx) and cy * choose(DPI, dy) <= EMU_PER_INCH * h < (cy + 1) * choose(DPI, dy))


@cond(timeout=900, encodes=ENC,
      bound="native size from pixel pools [1, 3, 640, 4096]^2 x dpi pools [1, 72, 300, 2048]^2 (symbolic indices, "
            "non-square dpi included); the given dimension from [1, 7, 914400, 1000001, 10^9] (symbolic index; concrete per path, "
            "see native_size): the other dimension is within 1 EMU "
            "of the aspect-preserving value (computed on the native EMU size); neither given -> native size; both given -> unchanged")
def scale_preserves_aspect_ratio(wi: int, hi: int, dx: int, dy: int, given: int, vi: int) -> bool:
    """
    pre: 0 <= wi < len(PX) and 0 <= hi < len(PX) and 0 <= dx < len(DPI) and 0 <= dy < len(DPI)
    pre: 0 <= given <= 3 and 0 <= vi < len(GIVEN) and (given != 0 or vi == 0)
    post: _
    """
    v, v2 = choose(GIVEN, vi), choose(GIVEN, len(GIVEN) - 1 - vi)
    part = _Part((choose(PX, wi), choose(PX, hi)), (choose(DPI, dx), choose(DPI, dy)))
    ncx = EMU_PER_INCH * choose(PX, wi) // choose(DPI, dx)
    ncy = EMU_PER_INCH * choose(PX, hi) // choose(DPI, dy)
    if ncx == 0 or ncy == 0:
        return True  # a sub-EMU native dimension (1 px at 2048 dpi is 446 EMU, never 0 in these pools)
    if given == 0:
        return part.scale(None, None) == (ncx, ncy)
    if given == 3:
        return part.scale(v, v2) == (v, v2)
    if given == 1:
        cx, cy = part.scale(v, None)
        return cx == v and -ncx <= cy * ncx - ncy * v <= ncx
    cx, cy = part.scale(None, v)
    return cy == v and -ncy <= cx * ncy - ncx * v <= ncy


@cond(expect="refute", timeout=300, twin_of="scale_preserves_aspect_ratio")
def scale_twin(wi: int, hi: int, dx: int, dy: int, vi: int) -> bool:
    """
    pre: 0 <= wi < len(PX) and 0 <= hi < len(PX) and 0 <= dx < len(DPI) and 0 <= dy < len(DPI) and 0 <= vi < len(GIVEN)
    post: _
    """
    v = choose(GIVEN, vi)
    part = _Part((choose(PX, wi), choose(PX, hi)), (choose(DPI, dx), choose(DPI, dy)))
    cx, cy = part.scale(v, None)
    # reach: non-square dpi with equal pixel sides gives a non-square picture
    return not (choose(PX, wi) == choose(PX, hi) and choose(DPI, dx) == 72 and choose(DPI, dy) == 300 and cy * 300 < cx * 73)


NS = [-5, 0, 1, 2, 3, 6, 287, 288, 8190, 8194, 10**6]


def _image_with_dpi(info):
    img = Image(b"", None)
    img.__dict__["_pil_props"] = ("PNG", (10, 10), info)
    return img.dpi


@cond(timeout=600, encodes=ENC,
      bound="the 'dpi' entry Pillow reports: absent (None), not a tuple, or a pair whose members are each None / an int (every int) / "
            "a float n/4 / a non-numeric str (symbolic kinds), n from [-5, 0, 1, 2, 3, 6, 287, 288, 8190, 8194, 10^6] (symbolic index): each result is an int in 1..2048, equal "
            "to the rounded input when that is in 1..2048, else 72")
def dpi_is_normalised(kind: int, ka: int, kb: int, ai: int, bi: int) -> bool:
    """
    pre: 0 <= kind <= 2 and 0 <= ka <= 3 and 0 <= kb <= 3 and 0 <= ai < len(NS) and 0 <= bi < len(NS)
    pre: (kind == 2 or (ka == 0 and kb == 0 and ai == 0 and bi == 0)) and (ka in (1, 2) or ai == 0) and (kb in (1, 2) or bi == 0)
    post: _
    """
    a, b = choose(NS, ai), choose(NS, bi)
    def val(k, n):
        return [None, n, n / 4.0, "x"][k]

    def want(k, n):
        if k == 1:
            r = n
        elif k == 2:
            q, rem = divmod(n, 4)  # round half to even of n/4
            r = q + (1 if rem == 3 or (rem == 2 and q % 2 == 1) else 0)
        else:
            return 72
        return r if 1 <= r <= 2048 else 72

    if kind == 0:
        return _image_with_dpi(None) == (72, 72)
    if kind == 1:
        return _image_with_dpi(96) == (72, 72)
    return _image_with_dpi((val(ka, a), val(kb, b))) == (want(ka, a), want(kb, b))


# ------------------------------------------------------------------ de-duplication, naming, typing
class _StandInImage:
    """What ImagePart.new / get_or_add_image_part read from an Image (Pillow and hashlib supply these normally)."""

    def __init__(self, sha1, ext):
        self.sha1, self.ext, self.blob, self.filename = sha1, ext, b"bytes-" + sha1.encode(), "f." + ext
        self.content_type = image_content_types[ext]


EXTS = [e for e in sorted(image_content_types) if e in ('png', 'jpg', 'tiff', 'wmf', 'bmp', 'gif')]
SHAS = ["s0", "s1", "s2"]


_DEDUP = '''
@cond(timeout=600, encodes=ENC,
      bound="a package already holding k <= 3 image parts with sha1 values from a pool of 3 (equal digests allowed, symbolic) related "
            "from one or two slide-like parts; an image with a symbolic digest (pool of 3 + a new one) and symbolic format (png, jpg, tiff, wmf, bmp, gif) is added: an existing part is returned iff some existing digest equals the new one, otherwise exactly "
            "one part is created with a fresh name, the image's extension and the content type registered for it")
def image_parts_are_deduplicated_{new}(k: int, s0: int, s1: int, s2: int, e: int, shared_source: bool) -> bool:
    """
    pre: 0 <= k <= 3 and 0 <= s0 < 3 and 0 <= s1 < 3 and 0 <= s2 < 3 and 0 <= e < len(EXTS)
    pre: (k > 2 or s2 == 0) and (k > 1 or s1 == 0) and (k > 0 or s0 == 0)
    post: _
    """
    new = {new}
    import pptx.package as PK

    pkg = Package(None)
    holders = [Part(PackURI("/ppt/slides/slide%d.xml" % i), "application/x-slide", pkg, b"") for i in (1, 2)]
    for h in holders:
        pkg.relate_to(h, RT.SLIDE)
    existing = []
    for i, si in enumerate((s0, s1, s2)[:k]):
        img = _StandInImage(SHAS[si], "png")
        part = ImagePart.new(pkg, img)
        part.__dict__["sha1"] = img.sha1  # the digest hashlib would compute
        holders[0 if shared_source else i % 2].relate_to(part, RT.IMAGE)
        existing.append(part)
    names_before = [p.partname for p in existing]
    new_img = _StandInImage((SHAS + ["s9"])[new], EXTS[e])
    saved = PK.Image.from_file
    PK.Image.from_file = staticmethod(lambda f: new_img)
    try:
        got = pkg._image_parts.get_or_add_image_part("whatever.png")
    finally:
        PK.Image.from_file = saved
    dup = [p for p in existing if p.__dict__["sha1"] == new_img.sha1]
    if dup:
        return any(got is p for p in dup) and [p.partname for p in existing] == names_before
    return (got not in existing and got.partname not in names_before and got.partname.startswith("/ppt/media/image")
            and got.partname.ext == EXTS[e] and got.content_type == image_content_types[EXTS[e]] and got.blob == new_img.blob
            and (EXTS[e], got.content_type) in default_content_types and [p.partname for p in existing] == names_before)


'''
for _new in range(4):
    gen(_DEDUP.format(new=_new), globals())


@cond(timeout=300, encodes=ENC,
      bound="the same source (one file path, or one stream object) added twice to one package while its content is digest a at the "
            "first add and digest b at the second (a, b from a pool of 3; the file was overwritten when a != b), optionally with another "
            "image added in between: the second picture gets a part holding the second content; one part iff a == b")
def same_source_read_again_each_time(a: int, b: int, as_path: bool, between: bool, e: int) -> bool:
    """
    pre: 0 <= a < 3 and 0 <= b < 3 and 0 <= e < len(EXTS)
    post: _
    """
    import io

    import pptx.package as PK

    pkg = Package(None)
    holder = Part(PackURI("/ppt/slides/slide1.xml"), "application/x-slide", pkg, b"")
    pkg.relate_to(holder, RT.SLIDE)
    src = "figures/current.png" if as_path else io.BytesIO(b"stream")
    disk = {}
    saved = PK.Image.from_file
    PK.Image.from_file = staticmethod(lambda f: _StandInImage(disk[id(f) if not isinstance(f, str) else f], EXTS[e]))

    def add(source, sha):
        disk[id(source) if not isinstance(source, str) else source] = sha
        part = pkg._image_parts.get_or_add_image_part(source)
        part.__dict__.setdefault("sha1", sha)  # the digest hashlib would compute for a newly created part
        holder.relate_to(part, RT.IMAGE)
        return part

    try:
        first = add(src, SHAS[a])
        if between:
            add("other.png", "s7")
        second = add(src, SHAS[b])
    finally:
        PK.Image.from_file = saved
    if second.blob != b"bytes-" + SHAS[b].encode() or first.blob != b"bytes-" + SHAS[a].encode():
        return False
    return (second is first) == (a == b) and (second.partname == first.partname) == (a == b)


@cond(expect="refute", timeout=300, twin_of="image_parts_are_deduplicated_0")
def image_parts_twin(k: int, s0: int, s1: int, s2: int, new: int) -> bool:
    """
    pre: 0 <= k <= 3 and 0 <= s0 < 3 and 0 <= s1 < 3 and 0 <= s2 < 3 and 0 <= new <= 3
    post: _
    """
    return not (k == 3 and s0 == s1 and s2 == new and s0 != s2)


ALL_EXTS = sorted(image_content_types)


@cond(timeout=120, encodes=["pptx.opc.package:PartFactory.__new__", "pptx:content_type_to_part_class_map"],
      bound="every extension/content type an image part can be written with (all keys of image_content_types, symbolic index): "
            "loading a part of that type gives an ImagePart again (so that it keeps a sha1 and is found by the next add)")
def image_types_reload_as_image_parts(e: int) -> bool:
    """
    pre: 0 <= e < len(ALL_EXTS)
    post: _
    """
    import pptx  # noqa: F401  (registers the part classes)
    from pptx.opc.package import PartFactory

    ext = ALL_EXTS[e]
    part = PartFactory(PackURI("/ppt/media/image1.%s" % ext), image_content_types[ext], Package(None), b"blob")
    return isinstance(part, ImagePart) and hasattr(part, "sha1") and part.blob == b"blob"
