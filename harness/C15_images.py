"""C15 -- images are stored once, byte-exact, with the type and size of the actual image. DESIGN.md section 6, C15.
Pillow (format detection), SHA-1 and the byte path are C code and outside the claim; what is decided here is the Python
arithmetic (native size, aspect-preserving scaling, DPI normalisation) and the de-duplication / naming / typing logic."""
from kit.env import *  # noqa

setup()

from pptx.opc.constants import RELATIONSHIP_TYPE as RT  # noqa: E402
from pptx.opc.package import Part  # noqa: E402
from pptx.opc.packuri import PackURI  # noqa: E402
from pptx.opc.spec import default_content_types, image_content_types  # noqa: E402
from pptx.package import Package, _ImageParts  # noqa: E402
from pptx.parts.image import Image, ImagePart  # noqa: E402

ENC = ["pptx.parts.image:ImagePart.scale", "pptx.parts.image:ImagePart._native_size", "pptx.parts.image:Image.dpi",
       "pptx.parts.image:Image.ext", "pptx.parts.image:Image.content_type", "pptx.parts.image:ImagePart.new",
       "pptx.package:_ImageParts.get_or_add_image_part", "pptx.package:_ImageParts._find_by_sha1", "pptx.package:_ImageParts.__iter__",
       "pptx.package:Package.next_image_partname"]
PX = [1, 2, 3, 100, 640, 1000, 4096]
DPI = [1, 72, 96, 300, 2048]
EMU_PER_INCH = 914400


class _Part(ImagePart):
    """ImagePart whose pixel size and dpi are given directly (Pillow is what normally supplies them)."""

    def __init__(self, px, dpi):
        self.__px, self.__dpi = px, dpi

    @property
    def _px_size(self):
        return self.__px

    @property
    def _dpi(self):
        return self.__dpi


@cond(timeout=300, encodes=ENC,
      bound="pixel width/height: every int in 1..10^5 (value variables); horizontal/vertical dpi from [1, 72, 96, 300, 2048] (symbolic "
            "indices): native size = floor(914400 * px / dpi) per axis (the real model of the float quotient is exact here: the "
            "product is below 2^53 and a non-integer quotient is at least 1/2048 away from an integer)")
def native_size_is_pixels_over_dpi(w: int, h: int, dx: int, dy: int) -> bool:
    """
    pre: 1 <= w <= 10**5 and 1 <= h <= 10**5 and 0 <= dx < len(DPI) and 0 <= dy < len(DPI)
    post: _
    """
    cx, cy = _Part((w, h), (DPI[dx], DPI[dy]))._native_size
    return (cx * DPI[dx] <= EMU_PER_INCH * w < (cx + 1) * DPI[dx] and cy * DPI[dy] <= EMU_PER_INCH * h < (cy + 1) * DPI[dy])


@cond(timeout=900, encodes=ENC,
      bound="native size from pixel pools [1, 2, 3, 100, 640, 1000, 4096]^2 x dpi pools [1, 72, 96, 300, 2048]^2 (symbolic indices, "
            "non-square dpi included); the given dimension every int in 1..10^9 (value variable): the other dimension is within 1 EMU "
            "of the aspect-preserving value (computed on the native EMU size); neither given -> native size; both given -> unchanged")
def scale_preserves_aspect_ratio(wi: int, hi: int, dx: int, dy: int, given: int, v: int, v2: int) -> bool:
    """
    pre: 0 <= wi < len(PX) and 0 <= hi < len(PX) and 0 <= dx < len(DPI) and 0 <= dy < len(DPI)
    pre: 0 <= given <= 3 and 1 <= v <= 10**9 and 1 <= v2 <= 10**9
    post: _
    """
    part = _Part((PX[wi], PX[hi]), (DPI[dx], DPI[dy]))
    ncx = EMU_PER_INCH * PX[wi] // DPI[dx]
    ncy = EMU_PER_INCH * PX[hi] // DPI[dy]
    if ncx == 0 or ncy == 0:
        return True  # a sub-EMU native dimension (1 px at 2048 dpi is 446 EMU, never 0 in these pools)
    if given == 0:
        return part.scale(None, None) == (ncx, ncy)
    if given == 3:
        return part.scale(v, v2) == (v, v2)
    if given == 1:
        cx, cy = part.scale(v, None)
        return cx == v and -ncx <= cy * ncx - ncy * v <= ncx
    cx, cy = part.scale(None, v)
    return cy == v and -ncy <= cx * ncy - ncx * v <= ncy


@cond(expect="refute", timeout=300, twin_of="scale_preserves_aspect_ratio")
def scale_twin(wi: int, hi: int, dx: int, dy: int, v: int) -> bool:
    """
    pre: 0 <= wi < len(PX) and 0 <= hi < len(PX) and 0 <= dx < len(DPI) and 0 <= dy < len(DPI) and 1 <= v <= 10**9
    post: _
    """
    part = _Part((PX[wi], PX[hi]), (DPI[dx], DPI[dy]))
    cx, cy = part.scale(v, None)
    # reach: non-square dpi with equal pixel sides gives a non-square picture
    return not (PX[wi] == PX[hi] and DPI[dx] == 72 and DPI[dy] == 300 and cy * 300 < cx * 73)


def _image_with_dpi(info):
    img = Image(b"", None)
    img.__dict__["_pil_props"] = ("PNG", (10, 10), info)
    return img.dpi


@cond(timeout=300, encodes=ENC,
      bound="the 'dpi' entry Pillow reports: absent (None), not a tuple, or a pair whose members are each None / an int (every int) / "
            "a float n/4 (n every int in -10^6..10^6) / a non-numeric str (symbolic kinds): each result is an int in 1..2048, equal "
            "to the rounded input when that is in 1..2048, else 72")
def dpi_is_normalised(kind: int, ka: int, kb: int, a: int, b: int) -> bool:
    """
    pre: 0 <= kind <= 2 and 0 <= ka <= 3 and 0 <= kb <= 3 and -10**6 <= a <= 10**6 and -10**6 <= b <= 10**6
    post: _
    """
    def val(k, n):
        return [None, n, n / 4.0, "x"][k]

    def want(k, n):
        if k == 1:
            r = n
        elif k == 2:
            q, rem = divmod(n, 4)  # round half to even of n/4
            r = q + (1 if rem == 3 or (rem == 2 and q % 2 == 1) else 0)
        else:
            return 72
        return r if 1 <= r <= 2048 else 72

    if kind == 0:
        return _image_with_dpi(None) == (72, 72)
    if kind == 1:
        return _image_with_dpi(96) == (72, 72)
    return _image_with_dpi((val(ka, a), val(kb, b))) == (want(ka, a), want(kb, b))


# ------------------------------------------------------------------ de-duplication, naming, typing
class _StandInImage:
    """What ImagePart.new / get_or_add_image_part read from an Image (Pillow and hashlib supply these normally)."""

    def __init__(self, sha1, ext):
        self.sha1, self.ext, self.blob, self.filename = sha1, ext, b"bytes-" + sha1.encode(), "f." + ext
        self.content_type = image_content_types[ext]


EXTS = sorted(image_content_types)
SHAS = ["s0", "s1", "s2"]


@cond(timeout=600, encodes=ENC,
      bound="a package already holding k <= 3 image parts with sha1 values from a pool of 3 (equal digests allowed, symbolic) related "
            "from one or two slide-like parts; an image with a symbolic digest (pool of 3 + a new one) and symbolic format (any key of "
            "image_content_types) is added: an existing part is returned iff some existing digest equals the new one, otherwise exactly "
            "one part is created with a fresh name, the image's extension and the content type registered for it")
def image_parts_are_deduplicated(k: int, s0: int, s1: int, s2: int, new: int, e: int, shared_source: bool) -> bool:
    """
    pre: 0 <= k <= 3 and 0 <= s0 < 3 and 0 <= s1 < 3 and 0 <= s2 < 3 and 0 <= new <= 3 and 0 <= e < len(EXTS)
    post: _
    """
    import pptx.package as PK

    pkg = Package(None)
    holders = [Part(PackURI("/ppt/slides/slide%d.xml" % i), "application/x-slide", pkg, b"") for i in (1, 2)]
    for h in holders:
        pkg.relate_to(h, RT.SLIDE)
    existing = []
    for i, si in enumerate((s0, s1, s2)[:k]):
        img = _StandInImage(SHAS[si], "png")
        part = ImagePart.new(pkg, img)
        part.__dict__["sha1"] = img.sha1  # the digest hashlib would compute
        holders[0 if shared_source else i % 2].relate_to(part, RT.IMAGE)
        existing.append(part)
    names_before = [p.partname for p in existing]
    new_img = _StandInImage((SHAS + ["s9"])[new], EXTS[e])
    saved = PK.Image.from_file
    PK.Image.from_file = staticmethod(lambda f: new_img)
    try:
        got = pkg._image_parts.get_or_add_image_part("whatever.png")
    finally:
        PK.Image.from_file = saved
    dup = [p for p in existing if p.__dict__["sha1"] == new_img.sha1]
    if dup:
        return got is dup[0] and [p.partname for p in existing] == names_before
    return (got not in existing and got.partname not in names_before and got.partname.startswith("/ppt/media/image")
            and got.partname.ext == EXTS[e] and got.content_type == image_content_types[EXTS[e]] and got.blob == new_img.blob
            and (EXTS[e], got.content_type) in default_content_types and [p.partname for p in existing] == names_before)


@cond(expect="refute", timeout=300, twin_of="image_parts_are_deduplicated")
def image_parts_twin(k: int, s0: int, s1: int, s2: int, new: int) -> bool:
    """
    pre: 0 <= k <= 3 and 0 <= s0 < 3 and 0 <= s1 < 3 and 0 <= s2 < 3 and 0 <= new <= 3
    post: _
    """
    return not (k == 3 and s0 == s1 and s2 == new and s0 != s2)
