"""C04 -- text assigned is the text read back, with only the documented translations. DESIGN.md section 6, C04."""
from kit.env import *  # noqa

setup()

from pptx.oxml import parse_xml  # noqa: E402
from pptx.oxml.ns import nsdecls, qn  # noqa: E402
from pptx.oxml.table import CT_Table  # noqa: E402
from pptx.table import _Cell  # noqa: E402
from pptx.text.text import TextFrame, _Paragraph, _Run  # noqa: E402

ALPH = "\n\x0b\t\x07 a<" if THOROUGH else "\n\x0b\t\x07\x00\r a_<&"
MAXLEN = 4 if THOROUGH else 3
ENC = ["pptx.text.text:TextFrame.text", "pptx.text.text:_Paragraph.text", "pptx.text.text:_Paragraph.clear", "pptx.text.text:_Run.text",
       "pptx.table:_Cell.text", "pptx.oxml.text:CT_TextParagraph.append_text", "pptx.oxml.text:CT_TextParagraph.content_children",
       "pptx.oxml.text:CT_RegularTextRun._escape_ctrl_chars", "pptx.oxml.text:CT_RegularTextRun.text", "pptx.oxml.text:CT_TextBody.clear_content"]
BOUND = ("quick: every string s with len(s) <= 3 over the alphabet {LF, VT, TAB, BEL, NUL, CR, space, 'a', '_', '<', '&'} (one "
         "representative per class the code distinguishes); thorough: len(s) <= 4 over {LF, VT, TAB, BEL, space, 'a', '<'}; prior body "
         "state: symbolic index into 3 states")
A = nsdecls("a")
PRIOR_P = [
    "<a:p %s/>" % A,
    "<a:p %s><a:r><a:t>old</a:t></a:r><a:br/><a:r><a:t>x</a:t></a:r></a:p>" % A,
    '<a:p %s><a:pPr algn="ctr" lvl="2"/><a:r><a:rPr b="1"/><a:t>old</a:t></a:r><a:br/><a:fld id="{F}" type="slidenum"><a:t>7</a:t></a:fld>'
    '<a:endParaRPr lang="en-US"/></a:p>' % A,
]
PRIOR_BODY = [
    "<p:txBody %s><a:bodyPr/><a:lstStyle/><a:p/></p:txBody>" % nsdecls("p", "a"),
    "<p:txBody %s><a:bodyPr wrap=\"none\"/><a:p><a:r><a:t>one</a:t></a:r></a:p><a:p><a:pPr lvl=\"1\"/><a:r><a:t>two</a:t></a:r><a:br/></a:p></p:txBody>" % nsdecls("p", "a"),
    "<p:txBody %s><a:bodyPr/><a:p><a:fld id=\"{F}\" type=\"slidenum\"><a:t>7</a:t></a:fld><a:endParaRPr/></a:p></p:txBody>" % nsdecls("p", "a"),
]


def _esc(seg):
    """Independent reference for the documented escape: C0 controls other than TAB and LF become _xHHHH_."""
    out = ""
    for ch in seg:
        o = ord(ch)
        if o < 32 and o != 9 and o != 10:
            out += "_x%04X_" % o
        else:
            out += ch
    return out


def _split(s, seps):
    parts, cur = [], ""
    for ch in s:
        if ch in seps:
            parts.append(cur)
            cur = ""
        else:
            cur += ch
    parts.append(cur)
    return parts


def _p_shape_ok(p, segs):
    """a:p holds (a:pPr)? then for each segment an a:r (only when non-empty), an a:br between segments, then (a:endParaRPr)?"""
    want = []
    for i, seg in enumerate(segs):
        if i > 0:
            want.append("br")
        if seg != "":
            want.append("r")
    kids = [c.tag.split("}")[1] for c in p]
    if kids and kids[0] == "pPr":
        kids = kids[1:]
    if kids and kids[-1] == "endParaRPr":
        kids = kids[:-1]
    return kids == want


@cond(timeout=3000 if THOROUGH else 300, encodes=ENC, bound=BOUND)
def run_level(s: str, had_rPr: bool) -> bool:
    """
    pre: len(s) <= MAXLEN and all(c in ALPH for c in s)
    post: _
    """
    r = parse_xml("<a:r %s>%s<a:t>old</a:t></a:r>" % (A, '<a:rPr b="1"/>' if had_rPr else ""))
    run = _Run(r, None)
    rPr = r.rPr
    run.text = s
    return run.text == _esc(s) and r.rPr is rPr and len(r) == (2 if had_rPr else 1) and (r.t.text or "") == _esc(s)


@cond(timeout=3000 if THOROUGH else 900, encodes=ENC, bound=BOUND)
def paragraph_level(s: str, prior: int) -> bool:
    """
    pre: len(s) <= MAXLEN and all(c in ALPH for c in s)
    pre: 0 <= prior < 3
    post: _
    """
    p = parse_xml(PRIOR_P[prior])
    pPr, end = p.pPr, p.endParaRPr
    para = _Paragraph(p, None)
    para.text = s
    segs = _split(s, "\n\x0b")
    want = "\x0b".join(_esc(x) for x in segs)
    return (para.text == want and _p_shape_ok(p, segs) and p.pPr is pPr and p.endParaRPr is end
            and (pPr is None or (p[0] is pPr and pPr.get("algn") == "ctr" and pPr.get("lvl") == "2")))


@cond(expect="refute", timeout=120, twin_of="paragraph_level")
def paragraph_twin(s: str) -> bool:
    """
    pre: len(s) <= MAXLEN and all(c in ALPH for c in s)
    post: _
    """
    p = parse_xml(PRIOR_P[2])
    para = _Paragraph(p, None)
    para.text = s
    return para.text != "_x0007_\x0b" + "a"


@cond(timeout=3000 if THOROUGH else 900, encodes=ENC, bound=BOUND)
def frame_level(s: str, prior: int) -> bool:
    """
    pre: len(s) <= MAXLEN and all(c in ALPH for c in s)
    pre: 0 <= prior < 3
    post: _
    """
    txBody = parse_xml(PRIOR_BODY[prior])
    bodyPr = txBody.bodyPr
    tf = TextFrame(txBody, None)
    tf.text = s
    paras = _split(s, "\n")
    want = "\n".join("\x0b".join(_esc(x) for x in _split(pt, "\x0b")) for pt in paras)
    ps = txBody.p_lst
    return (tf.text == want and len(ps) == len(paras) and txBody.bodyPr is bodyPr and txBody[0] is bodyPr
            and all(_p_shape_ok(p, _split(pt, "\x0b")) for p, pt in zip(ps, paras))
            and [q.text for q in tf.paragraphs] == ["\x0b".join(_esc(x) for x in _split(pt, "\x0b")) for pt in paras])


@cond(expect="refute", timeout=120, twin_of="frame_level")
def frame_twin(s: str) -> bool:
    """
    pre: len(s) <= MAXLEN and all(c in ALPH for c in s)
    post: _
    """
    txBody = parse_xml(PRIOR_BODY[1])
    tf = TextFrame(txBody, None)
    tf.text = s
    return not (len(txBody.p_lst) == 3 and tf.text == "\n\x0b\n")


_CELL_TBL = CT_Table.new_tbl(1, 1, 100, 100)


@cond(timeout=3000 if THOROUGH else 900, encodes=ENC, bound=BOUND + " (cell of a fresh 1x1 table, optionally holding earlier text)")
def cell_level(s: str, had_text: bool) -> bool:
    """
    pre: len(s) <= MAXLEN and all(c in ALPH for c in s)
    post: _
    """
    import copy

    tbl = copy.deepcopy(_CELL_TBL)
    cell = _Cell(tbl.tc(0, 0), None)
    if had_text:
        cell.text = "old\nolder"
    cell.text = s
    paras = _split(s, "\n")
    want = "\n".join("\x0b".join(_esc(x) for x in _split(pt, "\x0b")) for pt in paras)
    return cell.text == want and len(tbl.tc(0, 0).txBody.p_lst) == len(paras)
