"""C01 -- opening and saving a package preserves every reachable part and relationship. DESIGN.md section 6, C01.
Everything between the physical layer (stand-in, see opc_model.py) and the API runs for real: content-type map,
relationship graph walk, PartFactory, relationship and content-type serialisation."""
from kit.env import *  # noqa

setup()

from harness import opc_model as M  # noqa: E402
from pptx.opc.constants import CONTENT_TYPE as CT  # noqa: E402
from pptx.opc.package import OpcPackage  # noqa: E402

ENC = ["pptx.opc.package:OpcPackage.open", "pptx.opc.package:OpcPackage.save", "pptx.opc.package:OpcPackage.iter_parts",
       "pptx.opc.package:OpcPackage.iter_rels", "pptx.opc.package:_PackageLoader._load", "pptx.opc.package:_PackageLoader._parts",
       "pptx.opc.package:_PackageLoader._xml_rels", "pptx.opc.package:_ContentTypeMap.from_xml", "pptx.opc.package:_ContentTypeMap.__getitem__",
       "pptx.opc.package:_Relationships.load_from_xml", "pptx.opc.package:_Relationships.xml", "pptx.opc.package:_Relationship.from_xml",
       "pptx.opc.package:_Relationship.target_ref", "pptx.opc.serialized:PackageWriter._write", "pptx.opc.serialized:PackageReader.rels_xml_for",
       "pptx.opc.serialized:_ContentTypesItem._defaults_and_overrides", "pptx.opc.serialized:_ContentTypesItem._xml",
       "pptx.opc.packuri:PackURI.from_rel_ref", "pptx.opc.packuri:PackURI.relative_ref", "pptx.opc.packuri:PackURI.rels_uri"]
RT_DOC = "http://schemas.openxmlformats.org/officeDocument/2006/relationships/officeDocument"
RT_A = "http://t/a"
RT_B = "http://t/b"
MAIN = "/ppt/main.xml"
PAYLOADS = [b"blob-0", b""]  # the second part is present but empty (zero-length payloads are legal)
MAIN_CT = "application/x-main"  # neutral type: the part stays a plain Part (payload passes through untouched)
NAMES = ["/ppt/slides/s1.bin", "/ppt/media/m2.bin", "/docProps/c3.PNG", "/ppt/slides/s4.xml"]
TYPES = [CT.PML_PRINTER_SETTINGS, CT.SML_PRINTER_SETTINGS, CT.PNG, CT.XML, "application/x-unregistered"]
LAST_DETAIL = None


def _ext(name):
    leaf = name[name.rfind("/") + 1:]
    return leaf[leaf.rfind(".") + 1:]


def _snapshot(mf):
    """Independent reading of a saved package: {partname: (content type, blob)}, {source: set of (rId, type, mode, resolved target)}"""
    d, o = M.read_content_types(mf.members["[Content_Types].xml"])
    parts, rels = {}, {}
    for name, blob in mf.members.items():
        if name == "[Content_Types].xml" or "/_rels/" in "/" + name:
            continue
        parts["/" + name] = (M.type_of(d, o, "/" + name), blob)
    for src in ["/"] + list(parts):
        m = M.rels_member(src)
        if m in mf.members:
            base = M.dirname(src) if src != "/" else "/"
            rels[src] = set((rId, t, ext, tgt if ext else M.resolve(base, tgt)) for rId, t, tgt, ext in M.read_rels(mf.members[m]))
        else:
            rels[src] = set()
    return parts, rels


def _open_save(mf):
    pkg = OpcPackage.open(mf)
    out = M.MemFile()
    pkg.save(out)
    return pkg, out


def _check_round_trips(src, expect_parts, expect_rels):
    """open+save `src`; the result holds exactly the expected parts/relationships; open+save again is byte-identical."""
    pkg, out1 = _open_save(src)
    if len(out1.written) != len(set(out1.written)):
        detail(globals(), "duplicate member names written: %s", out1.written)
        return False
    parts1, rels1 = _snapshot(out1)
    if parts1 != expect_parts:
        detail(globals(), "parts after open+save %s differ from expected %s",
               {k: v[0] for k, v in parts1.items()}, {k: v[0] for k, v in expect_parts.items()})
        return False
    if rels1 != expect_rels:
        detail(globals(), "relationships after open+save %s differ from expected %s", rels1, expect_rels)
        return False
    pkg2, out2 = _open_save(out1)
    if out2.members != out1.members:
        detail(globals(), "second open+save is not byte-identical: %s", sorted(set(out1.members) ^ set(out2.members) or
               [k for k in out1.members if out1.members[k] != out2.members.get(k)]))
        return False
    return True


# ------------------------------------------------------------------ K1: content types
_K1 = '''
@cond(timeout=900, encodes=ENC,
      bound="two parts besides the main part; for each: name from a pool of 4 (extensions bin, bin, PNG, xml: shared, upper-case), "
            "content type from a pool of 5 (two registered defaults of 'bin', png, xml, one unregistered), declared by Default or "
            "Override (Default only when it does not conflict); the first part's name index is fixed per condition split")
def content_types_survive_n{n0}(t0: int, d0: bool, n1: int, t1: int, d1: bool) -> bool:
    """
    pre: {n0} < n1 < 4 and 0 <= t0 < 5 and 0 <= t1 < 5
    post: _
    """
    n0 = {n0}
    chosen = [(NAMES[n0], TYPES[t0], d0), (NAMES[n1], TYPES[t1], d1)]
    defaults = {{"rels": CT.OPC_RELATIONSHIPS, "xml": CT.XML}}
    overrides = [(MAIN, MAIN_CT)]
    for name, ct, by_default in chosen:
        e = _ext(name).lower()
        if by_default and defaults.get(e, ct) == ct:
            defaults[e] = ct
        else:
            overrides.append((name, ct))
    members = {{"[Content_Types].xml": M.content_types_xml(sorted(defaults.items()), overrides),
               "_rels/.rels": M.rels_xml([("rId1", RT_DOC, "ppt/main.xml", False)]),
               "ppt/main.xml": b"<main/>",
               "ppt/_rels/main.xml.rels": M.rels_xml([("rId1", RT_A, chosen[0][0], False), ("rId2", RT_B, chosen[1][0], False)])}}
    expect_parts = {{MAIN: (MAIN_CT, b"<main/>")}}
    for i, (name, ct, _) in enumerate(chosen):
        members[name[1:]] = PAYLOADS[i]
        expect_parts[name] = (ct, PAYLOADS[i])
    expect_rels = {{"/": {{("rId1", RT_DOC, False, MAIN)}}, MAIN: {{("rId1", RT_A, False, chosen[0][0]), ("rId2", RT_B, False, chosen[1][0])}},
                   chosen[0][0]: set(), chosen[1][0]: set()}}
    return _check_round_trips(M.MemFile(members), expect_parts, expect_rels)


'''
for _n0 in range(3):
    gen(_K1.format(n0=_n0), globals())


@cond(expect="refute", timeout=300, twin_of="content_types_survive_n0")
def content_types_twin(n0: int, t0: int, n1: int, t1: int) -> bool:
    """
    pre: 0 <= n0 < 4 and 0 <= n1 < 4 and n0 < n1 and 0 <= t0 < 5 and 0 <= t1 < 5
    post: _
    """
    members = {"[Content_Types].xml": M.content_types_xml([("rels", CT.OPC_RELATIONSHIPS), ("xml", CT.XML)],
                                                          [(MAIN, MAIN_CT), (NAMES[n0], TYPES[t0]), (NAMES[n1], TYPES[t1])]),
               "_rels/.rels": M.rels_xml([("rId1", RT_DOC, "ppt/main.xml", False)]), "ppt/main.xml": b"<main/>",
               "ppt/_rels/main.xml.rels": M.rels_xml([("rId1", RT_A, NAMES[n0], False), ("rId2", RT_B, NAMES[n1], False)]),
               NAMES[n0][1:]: b"x", NAMES[n1][1:]: b"y"}
    pkg, out = _open_save(M.MemFile(members))
    d, o = M.read_content_types(out.members["[Content_Types].xml"])
    # reach: an upper-case extension served by a Default, and an unregistered type served by an Override
    return not ("png" in d and M.type_of(d, o, NAMES[n0]) == "application/x-unregistered")


# ------------------------------------------------------------------ K2: relationship graph
def _graph_payload(i):
    return b"" if i == 2 else b"payload-%d" % i  # a zero-length part is a part like any other



SPELL = ["rel", "abs", "dot"]


def _spell(src_dir, target, how):
    if how == "abs":
        return target
    # relative reference written independently of PackURI.relative_ref
    s = [x for x in src_dir.split("/") if x]
    t = [x for x in target.split("/") if x]
    i = 0
    while i < len(s) and i < len(t) - 1 and s[i] == t[i]:
        i += 1
    ref = "/".join([".."] * (len(s) - i) + t[i:])
    return "./" + ref if how == "dot" else ref


GRAPH_PARTS = [MAIN, "/ppt/slides/s1.bin", "/ppt/media/m2.bin", "/top.xml", "/ppt/slidesX/q5.bin"]
SOURCES = ["/", MAIN, "/ppt/slides/s1.bin"]
TARGETS = ["/ppt/slides/s1.bin", "/ppt/media/m2.bin", "/top.xml", MAIN, "http://ext/u", "/ppt/slidesX/q5.bin"]

_GRAPH = '''
@cond(timeout=900, encodes=ENC,
      bound="4 parts at three directory depths; the package relationship to the main part plus two further relationships: first one "
            "with source {src0!r} (fixed in this split), target in [s1, m2, top, main (cycle), an external URL, q5 in a sibling-prefix directory /ppt/slidesX] and target spelling in "
            "[relative incl. '../', root-absolute, './'-prefixed]; second one with source in [package, main, s1], any of the 6 targets, "
            "relative spelling; shared targets and several relationships to one part allowed")
def graph_survives_{tag}(tg0: int, sp0: int, s1: int, tg1: int) -> bool:
    """
    pre: 0 <= tg0 < 6 and 0 <= sp0 < 3 and 0 <= s1 < 3 and 0 <= tg1 < 6
    post: _
    """
    edges = [({src0!r}, TARGETS[tg0], SPELL[sp0], "rId2", RT_A), (SOURCES[s1], TARGETS[tg1], "rel", "rId3", RT_B)]
    return _graph_case(edges)
'''


@cond(timeout=600, encodes=ENC,
      bound="relationship ids: the main part's two relationships carry ids from [rId2, rId9, lnk, R07] x [rId3, rId9, lnk, rId10] "
            "(non-numeric and out-of-sequence ids), targets s1 / m2 / external (symbolic): ids, types and targets survive")
def relationship_ids_survive(i0: int, i1: int, tg0: int, tg1: int) -> bool:
    """
    pre: 0 <= i0 < 4 and 0 <= i1 < 4 and 0 <= tg0 < 2 and 0 <= tg1 < 3
    pre: ["rId2", "rId9", "lnk", "R07"][i0] != ["rId3", "rId9", "lnk", "rId10"][i1]
    post: _
    """
    T = ["/ppt/slides/s1.bin", "/ppt/media/m2.bin", "http://ext/u"]
    edges = [(MAIN, T[tg0], "rel", ["rId2", "rId9", "lnk", "R07"][i0], RT_A), (MAIN, T[tg1], "rel", ["rId3", "rId9", "lnk", "rId10"][i1], RT_B)]
    return _graph_case(edges)


def _graph_case(edges):
    rels = {"/": [("rId1", RT_DOC, "ppt/main.xml", False)]}
    for p in GRAPH_PARTS:
        rels[p] = []
    for src, tgt, how, rId, rt in edges:
        ext = tgt.startswith("http")
        base = "/" if src == "/" else M.dirname(src)
        rels[src].append((rId, rt, tgt if ext else _spell(base, tgt, how), ext))
    # reachability, computed independently
    reach, todo = set(), [MAIN]
    while todo:
        p = todo.pop()
        if p in reach:
            continue
        reach.add(p)
        for (src, tgt, how, rId, rt) in edges:
            if src == p and not tgt.startswith("http"):
                todo.append(tgt)
    for (src, tgt, how, rId, rt) in edges:
        if src == "/" and not tgt.startswith("http") and tgt not in reach:
            todo = [tgt]
            while todo:
                p = todo.pop()
                if p in reach:
                    continue
                reach.add(p)
                for (s2, t2, h2, r2, rt2) in edges:
                    if s2 == p and not t2.startswith("http"):
                        todo.append(t2)
    members = {"[Content_Types].xml": M.content_types_xml([("rels", CT.OPC_RELATIONSHIPS), ("xml", CT.XML), ("bin", "application/x-bin")],
                                                          [(MAIN, MAIN_CT)]),
               "_rels/.rels": M.rels_xml(rels["/"])}
    for i, p in enumerate(GRAPH_PARTS):
        members[p[1:]] = _graph_payload(i)
        if rels[p]:
            members[M.rels_member(p)] = M.rels_xml(rels[p])
    types = {MAIN: MAIN_CT, "/ppt/slides/s1.bin": "application/x-bin", "/ppt/media/m2.bin": "application/x-bin", "/top.xml": CT.XML,
             "/ppt/slidesX/q5.bin": "application/x-bin"}
    expect_parts = {p: (types[p], _graph_payload(GRAPH_PARTS.index(p))) for p in reach}
    expect_rels = {"/": {("rId1", RT_DOC, False, MAIN)}}
    for p in reach:
        expect_rels[p] = set()
    for (src, tgt, how, rId, rt) in edges:
        if src == "/" or src in reach:
            expect_rels[src].add((rId, rt, tgt.startswith("http"), tgt))
    return _check_round_trips(M.MemFile(members), expect_parts, expect_rels)


for _i, _s in enumerate(SOURCES):
    gen(_GRAPH.format(src0=_s, tag=["pkg", "main", "s1"][_i]), globals())


@cond(expect="refute", timeout=300, twin_of="graph_survives_main")
def graph_twin(tg0: int, sp0: int, s1: int, tg1: int) -> bool:
    """
    pre: 0 <= tg0 < 6 and 0 <= sp0 < 3 and 0 <= s1 < 3 and 0 <= tg1 < 6
    post: _
    """
    edges = [(MAIN, TARGETS[tg0], SPELL[sp0], "rId2", RT_A), (SOURCES[s1], TARGETS[tg1], "rel", "rId3", RT_B)]
    _graph_case(edges)
    # reach: a '../'-relative reference from a part two levels down back to the main part (a cycle)
    return not (edges[1][0] == "/ppt/slides/s1.bin" and edges[1][1] == MAIN and edges[0][1] == "/ppt/slides/s1.bin" and edges[0][2] == "dot")
