"""C16 -- recoverable irregular packages open intact; non-packages are refused cleanly. DESIGN.md section 6, C16.
Faults are symbolic booleans injected into a model package held by the in-memory physical-layer stand-in (opc_model.py)."""
from kit.env import *  # noqa

setup()

from harness import opc_model as M  # noqa: E402
from pptx.opc.constants import CONTENT_TYPE as CT  # noqa: E402
from pptx.opc.package import OpcPackage  # noqa: E402

ENC = ["pptx.opc.package:OpcPackage.open", "pptx.opc.package:_PackageLoader._load", "pptx.opc.package:_PackageLoader._parts",
       "pptx.opc.package:_PackageLoader._xml_rels", "pptx.opc.package:_PackageLoader._xml_rels_for",
       "pptx.opc.package:_ContentTypeMap.from_xml", "pptx.opc.package:_ContentTypeMap.__getitem__",
       "pptx.opc.package:_Relationships.load_from_xml", "pptx.opc.shared:CaseInsensitiveDict.__getitem__",
       "pptx.opc.serialized:PackageReader.rels_xml_for", "pptx.api:Presentation", "pptx.api:_is_pptx_package",
       "pptx.opc.package:OpcPackage.main_document_part"]
RT_DOC = "http://schemas.openxmlformats.org/officeDocument/2006/relationships/officeDocument"
MAIN, S1, M2 = "/ppt/main.xml", "/ppt/slides/s1.bin", "/ppt/media/m2.dat"
MAIN_CT = "application/x-main"


def _model(dangle_s1, void_rel, void_known_ext, flip_override, flip_default, orphan, unknown_ct, s1_has_rels):
    m2_ct = "application/x-never-heard-of" if unknown_ct else "application/x-dat"
    defaults = [("rels", CT.OPC_RELATIONSHIPS), ("xml", CT.XML), ("BIN" if flip_default else "bin", "application/x-bin")]
    overrides = [("/PPT/Main.XML" if flip_override else MAIN, MAIN_CT), (M2, m2_ct)]
    main_rels = [("rId1", "http://t/a", "slides/s1.bin", False), ("rId2", "http://t/b", "media/m2.dat", False),
                 ("rId3", "http://t/h", "http://ext/u", True)]
    if void_rel:
        main_rels.append(("rId4", "http://t/a", "slides/s9.bin" if void_known_ext else "slides/NULL", False))
    members = {"[Content_Types].xml": M.content_types_xml(defaults, overrides),
               "_rels/.rels": M.rels_xml([("rId1", RT_DOC, "ppt/main.xml", False)]),
               "ppt/main.xml": b"<main/>", "ppt/_rels/main.xml.rels": M.rels_xml(main_rels),
               "ppt/media/m2.dat": b"m2"}
    if not dangle_s1:
        members["ppt/slides/s1.bin"] = b"s1"
        if s1_has_rels:
            members["ppt/slides/_rels/s1.bin.rels"] = M.rels_xml([("rId1", "http://t/c", "../media/m2.dat", False)])
    if orphan:
        members["ppt/orphan.bin"] = b"orphan"
        members["docProps/thumbnail.jpeg"] = b"jpg"
    expect_parts = {MAIN: MAIN_CT, M2: m2_ct}
    expect_main_rels = {"rId2": M2, "rId3": "http://ext/u"}
    if not dangle_s1:
        expect_parts[S1] = "application/x-bin"
        expect_main_rels["rId1"] = S1
    return members, expect_parts, expect_main_rels


@cond(timeout=600, encodes=ENC,
      bound="model package (main part, s1, m2, one external link) x 8 independent fault booleans, any combination: target part of a "
            "relationship absent; an extra relationship to a voided target ('slides/NULL', no content type; or 'slides/s9.bin'); "
            "Override part name / Default extension written in a different case; unreferenced extra members; unknown content type; "
            "a part with or without its own relationship item")
def irregular_package_opens_intact(dangle_s1: bool, void_rel: bool, void_known_ext: bool, flip_override: bool, flip_default: bool,
                                   orphan: bool, unknown_ct: bool, s1_has_rels: bool) -> bool:
    """
    post: _
    """
    members, expect_parts, expect_main_rels = _model(dangle_s1, void_rel, void_known_ext, flip_override, flip_default, orphan,
                                                     unknown_ct, s1_has_rels)
    pkg = OpcPackage.open(M.MemFile(members))
    parts = {p.partname: p for p in pkg.iter_parts()}
    ok = set(parts) == set(expect_parts) and all(parts[n].content_type == ct for n, ct in expect_parts.items())
    main = pkg.main_document_part
    ok = ok and main is parts[MAIN] and main.blob == b"<main/>" and parts[M2].blob == b"m2"
    got = {}
    for rId, rel in main.rels.items():
        got[rId] = rel.target_ref if rel.is_external else rel.target_part.partname
    ok = ok and got == expect_main_rels
    if not dangle_s1:
        ok = ok and parts[S1].blob == b"s1" and len(parts[S1].rels) == (1 if s1_has_rels else 0)
        if s1_has_rels:
            ok = ok and list(parts[S1].rels.values())[0].target_part is parts[M2]
    return ok


@cond(expect="refute", timeout=120, twin_of="irregular_package_opens_intact")
def irregular_twin(dangle_s1: bool, void_rel: bool, flip_override: bool, orphan: bool) -> bool:
    """
    post: _
    """
    members, expect_parts, expect_main_rels = _model(dangle_s1, void_rel, False, flip_override, False, orphan, False, False)
    pkg = OpcPackage.open(M.MemFile(members))
    return not (dangle_s1 and void_rel and flip_override and orphan and len(list(pkg.iter_parts())) == 2)


# ------------------------------------------------------------------ refusal
from pptx.api import Presentation  # noqa: E402
from pptx.oxml.ns import nsdecls  # noqa: E402

PRS_XML = ("<?xml version='1.0' encoding='UTF-8' standalone='yes'?>\n<p:presentation %s><p:sldSz cx=\"9144000\" cy=\"6858000\"/>"
           "<p:notesSz cx=\"6858000\" cy=\"9144000\"/></p:presentation>" % nsdecls("p", "a", "r")).encode("utf-8")
MAIN_TYPES = [CT.PML_PRESENTATION_MAIN, CT.PML_PRES_MACRO_MAIN, CT.PML_TEMPLATE_MAIN, CT.PML_SLIDESHOW_MAIN, CT.XML, CT.WML_DOCUMENT_MAIN]


@cond(timeout=300, encodes=ENC,
      bound="main part content type: symbolic index into [presentation, macro-enabled presentation, template, slide show, plain xml, "
            "a Word document]; mandatory members present or removed (2 fault booleans): ValueError exactly for a non-presentation "
            "main part, KeyError for a missing [Content_Types].xml or a missing office-document relationship, nothing else")
def non_presentation_is_refused(t: int, no_content_types: bool, no_pkg_rels: bool) -> bool:
    """
    pre: 0 <= t < len(MAIN_TYPES)
    post: _
    """
    members = {"[Content_Types].xml": M.content_types_xml([("rels", CT.OPC_RELATIONSHIPS), ("xml", CT.XML)],
                                                          [("/ppt/presentation.xml", MAIN_TYPES[t])]),
               "_rels/.rels": M.rels_xml([("rId1", RT_DOC, "ppt/presentation.xml", False)]),
               "ppt/presentation.xml": PRS_XML}
    if no_content_types:
        del members["[Content_Types].xml"]
    if no_pkg_rels:
        del members["_rels/.rels"]
    try:
        prs = Presentation(M.MemFile(members))
    except ValueError:
        return t >= 2 and not no_content_types and not no_pkg_rels
    except KeyError:
        return no_content_types or no_pkg_rels
    return t < 2 and not no_content_types and not no_pkg_rels and prs.slide_width == 9144000 and len(prs.slides) == 0


# ------------------------------------------------------------------ physical layer (concrete executions only)
import atexit  # noqa: E402
import io  # noqa: E402
import os  # noqa: E402
import shutil  # noqa: E402
import tempfile  # noqa: E402
import zipfile  # noqa: E402

from pptx.exc import PackageNotFoundError  # noqa: E402

_TMP = tempfile.mkdtemp(prefix="verif_c16_")
atexit.register(shutil.rmtree, _TMP, True)


def _valid_zip_bytes():
    buf = io.BytesIO()
    with zipfile.ZipFile(buf, "w") as z:
        z.writestr("[Content_Types].xml", M.content_types_xml([("rels", CT.OPC_RELATIONSHIPS), ("xml", CT.XML)],
                                                                [("/ppt/presentation.xml", CT.PML_PRESENTATION_MAIN)]))
        z.writestr("_rels/.rels", M.rels_xml([("rId1", RT_DOC, "ppt/presentation.xml", False)]))
        z.writestr("ppt/presentation.xml", PRS_XML)
    return buf.getvalue()


_ZIP = _valid_zip_bytes()
FILE_KINDS = {"missing": None, "empty": b"", "garbage": b"this is not a zip file at all" * 8, "truncated": _ZIP[: len(_ZIP) // 2],
              "valid": _ZIP}
KIND_NAMES = sorted(FILE_KINDS)
for _k, _b in FILE_KINDS.items():
    if _b is not None:
        with open(os.path.join(_TMP, _k + ".pptx"), "wb") as _f:
            _f.write(_b)


def _open_kind(name, as_stream):
    data = FILE_KINDS[name]
    target = io.BytesIO(data) if as_stream else os.path.join(_TMP, name + ".pptx")
    try:
        prs = Presentation(target)
    except PackageNotFoundError:
        return "PackageNotFoundError"
    except zipfile.BadZipFile:
        return "BadZipFile"
    except Exception as e:  # noqa: an arbitrary internal error is what the property forbids
        return "other:" + type(e).__name__
    return "opened:%d" % len(prs.slides)


@cond(timeout=120, encodes=["pptx.opc.serialized:_PhysPkgReader.factory", "pptx.opc.serialized:_ZipPkgReader._blobs"],
      bound="the physical layer (os, zipfile) cannot be executed symbolically: five file kinds (missing, empty, garbage, truncated "
            "zip, valid zip) x path / stream, selected by a symbolic index and run concretely on real files: a non-package path gives "
            "PackageNotFoundError, a non-zip stream BadZipFile, the valid package opens")
def physical_non_packages_are_refused(k: int, as_stream: bool) -> bool:
    """
    pre: 0 <= k < len(KIND_NAMES)
    post: _
    """
    name = KIND_NAMES[k]
    if as_stream and name == "missing":
        return True
    got = untraced_call(_open_kind, name, as_stream)
    if name == "valid":
        return got == "opened:0"
    return got == ("BadZipFile" if as_stream else "PackageNotFoundError")
