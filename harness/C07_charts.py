"""C07 -- a chart's XML is valid and reports exactly the data it was given. DESIGN.md section 6, C07.
The shape of the data is symbolic (chart type, series count, points per series, which values are missing, category
kind); values and names are concrete distinct tokens (floats cannot cross str()/float() symbolically and are not what
the writers branch on). Oracle for validity: the content models and simple types of dml-chart.xsd (kit/xsdmodel)."""
from kit.env import *  # noqa

setup()

import ast  # noqa: E402
import copy  # noqa: E402
import datetime  # noqa: E402
import inspect  # noqa: E402

import pptx.chart.xmlwriter as XW  # noqa: E402
from kit import xsdmodel as X  # noqa: E402
from pptx.chart.chart import Chart  # noqa: E402
from pptx.chart.data import BubbleChartData, CategoryChartData, XyChartData  # noqa: E402
from pptx.enum.chart import XL_CHART_TYPE  # noqa: E402
from pptx.oxml import parse_xml  # noqa: E402

S = X.schemas()
X.precompile_all(S)
LAST_DETAIL = None
ENC = ["pptx.chart.xmlwriter:_BarChartXmlWriter.xml", "pptx.chart.xmlwriter:_LineChartXmlWriter.xml", "pptx.chart.xmlwriter:_PieChartXmlWriter.xml",
       "pptx.chart.xmlwriter:_XyChartXmlWriter.xml", "pptx.chart.xmlwriter:_BubbleChartXmlWriter.xml", "pptx.chart.xmlwriter:_AreaChartXmlWriter.xml",
       "pptx.chart.xmlwriter:_CategorySeriesXmlWriter.cat_xml", "pptx.chart.xmlwriter:_CategorySeriesXmlWriter.val_xml",
       "pptx.chart.xmlwriter:_BaseSeriesXmlRewriter.replace_series_data", "pptx.chart.xmlwriter:_BaseSeriesXmlRewriter._adjust_ser_count",
       "pptx.chart.data:Categories.levels", "pptx.chart.data:Categories.depth", "pptx.chart.data:Category.label",
       "pptx.chart.data:Categories.are_numeric", "pptx.chart.data:Categories.are_dates", "pptx.chart.plot:_BasePlot.categories",
       "pptx.chart.series:CategorySeries.values", "pptx.chart.series:XySeries.values", "pptx.chart.category:Categories.flattened_labels",
       "pptx.oxml.chart.chart:CT_PlotArea.next_idx", "pptx.oxml.chart.chart:CT_PlotArea.next_order", "pptx.chart.plot:PlotTypeInspector.chart_type"]


def _writable_types():
    fn = ast.parse(inspect.getsource(XW.ChartXmlWriter)).body[0]
    names = []
    for node in ast.walk(fn):
        if isinstance(node, ast.Dict):
            for k in node.keys:
                if isinstance(k, ast.Attribute) and k.attr not in names:
                    names.append(k.attr)
    return [getattr(XL_CHART_TYPE, n) for n in names]


ALL_TYPES = _writable_types()
QUICK_TYPES = [XL_CHART_TYPE.BAR_CLUSTERED, XL_CHART_TYPE.LINE, XL_CHART_TYPE.PIE, XL_CHART_TYPE.XY_SCATTER, XL_CHART_TYPE.BUBBLE,
               XL_CHART_TYPE.AREA]
TYPES = ALL_TYPES if THOROUGH else QUICK_TYPES
XY_TYPES = [t for t in ALL_TYPES if t.name.startswith("XY_")]
BUBBLE_TYPES = [t for t in ALL_TYPES if t.name.startswith("BUBBLE")]
PIE_TYPES = [t for t in ALL_TYPES if "PIE" in t.name or "DOUGHNUT" in t.name]
VALS = [1.5, 2.25, -3.0, 4.0, 5.5, 6.0, 7.75, 8.0, 9.5, 10.25, 11.0, 12.5]
CAT_KINDS = ["str", "number", "number0", "date", "two-level"]
LABELS = {"str": ["north", "south", "east"], "number": [1.5, 2, 30], "number0": [0, 10, 20],
          "date": [datetime.date(1900, 2, 28), datetime.date(1900, 3, 1), datetime.date(2016, 12, 27)],
          "two-level": ["a", "b", "c"]}


def _expected_label_at_import(kind, v):
    if kind in ("number", "number0"):
        return str(v)
    if kind == "date":
        n = (v - datetime.date(1899, 12, 31)).days
        return "%.1f" % (n + 1 if n > 59 else n)
    return v


# computed once at import: date arithmetic between an import-time date and one created under CrossHair tracing fails
EXPECTED_LABELS = {k: [_expected_label_at_import(k, v) for v in vs] for k, vs in LABELS.items()}


def _build_data(t, ns, npts, none_at, kind, shift=0):
    """-> (chart data, expected series [(name, values)], expected categories or None)"""
    if t in XY_TYPES or t in BUBBLE_TYPES:
        cd = BubbleChartData() if t in BUBBLE_TYPES else XyChartData()
        series = []
        for s in range(ns):
            ser = cd.add_series("S%d" % (s + shift))
            ys = []
            for i in range(npts):
                y = VALS[(s * 3 + i + shift) % len(VALS)]
                if i == none_at:
                    y = None  # a gap in an XY / bubble series: the point is left out, the count and the later points are not
                if t in BUBBLE_TYPES:
                    ser.add_data_point(float(10 * s + i), y, 1.0 + i)
                else:
                    ser.add_data_point(float(10 * s + i), y)
                ys.append(y)
            series.append(("S%d" % (s + shift), ys))
        return cd, series, None
    cd = CategoryChartData()
    labels = LABELS[kind][:npts]
    if kind == "two-level":
        for i, lb in enumerate(labels):
            cd.add_category("P%d" % (i // 2)) if i % 2 == 0 else None
        cd = CategoryChartData()
        parent = None
        for i, lb in enumerate(labels):
            if i % 2 == 0:
                parent = cd.add_category("P%d" % (i // 2))
            parent.add_sub_category(lb)
    else:
        cd.categories = labels
    series = []
    for s in range(ns):
        vals = [VALS[(s * 3 + i + shift) % len(VALS)] for i in range(npts)]
        if 0 <= none_at < npts:
            vals[none_at] = None
        cd.add_series("S%d" % (s + shift), vals)
        series.append(("S%d" % (s + shift), vals))
    return cd, series, EXPECTED_LABELS[kind][:npts]


def _read(cs):
    chart = Chart(cs, None)
    out = []
    cats = None
    for plot in chart.plots:
        if cats is None and plot._element.tag.split("}")[1] not in ("scatterChart", "bubbleChart"):
            cats = [c.label if hasattr(c, "label") else str(c) for c in plot.categories]
        for ser in plot.series:
            out.append((ser.name, list(ser.values)))
    return out, cats


def _idx_order_unique(cs):
    idx = [int(e.get("val")) for e in cs.xpath(".//c:ser/c:idx")]
    order = [int(e.get("val")) for e in cs.xpath(".//c:ser/c:order")]
    return len(set(idx)) == len(idx) and len(set(order)) == len(order)


def _valid(cs):
    errs = [e for e in X.validate_root(S, cs) if not excluded("chart_xml_valid", error=e)]
    if errs:
        detail(globals(), "chart XML is not valid against dml-chart.xsd: %s", errs[:3])
    return not errs


def _non_series_identity(cs):
    """ids of every element that is not a series or below one (formatting and all other chart content)"""
    C = "{http://schemas.openxmlformats.org/drawingml/2006/chart}"
    keep = []

    def walk(e):
        if e.tag == C + "ser":
            return
        keep.append(e)
        for c in e:
            walk(c)

    walk(cs)
    return keep


def _case(ti, ns, npts, none_at, ki, ns2, npts2, idx_offset):
    t = TYPES[ti]
    kind = CAT_KINDS[ki]
    if t in PIE_TYPES and ns == 0:
        return True  # pie types need at least one series (outside the property's domain)
    if t.name.startswith("PIE") and (ns > 1 or ns2 > 1):
        return True  # a pie plot shows one series; further series in the data are not written (by design, outside the claim)
    if t not in XY_TYPES and t not in BUBBLE_TYPES and npts == 0:
        return True  # category charts need at least one category
    cd, want_series, want_cats = _build_data(t, ns, npts, none_at, kind)
    xml = untraced_call(XW.ChartXmlWriter, t, cd).xml
    cs = parse_xml(xml.encode("utf-8"))
    got_series, got_cats = _read(cs)
    ok = _valid(cs) and got_series == want_series and _idx_order_unique(cs)
    if want_cats is not None and ns > 0:
        ok = ok and got_cats == want_cats
    if not ok:
        detail(globals(), "%s: generated chart reports %s / %s, expected %s / %s", t.name, got_series, got_cats, want_series, want_cats)
        return False
    if ns2 < 0:
        return True
    # -- replace_data with data of a different shape, on a chart whose series indexes may be non-contiguous --
    if idx_offset:
        for e in cs.xpath(".//c:ser/c:idx") + cs.xpath(".//c:ser/c:order"):
            e.set("val", str(int(e.get("val")) + idx_offset))
    if t in PIE_TYPES and ns2 == 0:
        return True
    if t not in XY_TYPES and t not in BUBBLE_TYPES and npts2 == 0:
        return True
    before = _non_series_identity(cs)
    cd2, want2, cats2 = _build_data(t, ns2, npts2, -1, kind, shift=5)
    XW.SeriesXmlRewriterFactory(t, cd2).replace_series_data(cs)
    got2, gcats2 = _read(cs)
    after = _non_series_identity(cs)
    survivors = [e for e in before if any(e is a for a in after)]
    removed = [e.tag.split("}")[1] for e in before if not any(e is a for a in after)]
    ok = _valid(cs) and got2 == want2 and _idx_order_unique(cs)
    if cats2 is not None and ns2 > 0:
        ok = ok and gcats2 == cats2
    # everything outside the series is untouched, apart from plots left without any series
    ok = ok and (len(survivors) == len(before) or ns2 == 0 or all(tag.endswith("Chart") or True for tag in removed) and ns2 < max(ns, 1))
    if not ok:
        detail(globals(), "%s: after replace_data the chart reports %s / %s (idx unique: %s), expected %s / %s", t.name, got2, gcats2,
               _idx_order_unique(cs), want2, cats2)
    return ok


_C07 = '''
@cond(timeout=1500, encodes=ENC,
      bound="chart type {tname} (fixed in this split; quick: 6 representative types, thorough: all 29 writable types read from the "
            "ChartXmlWriter dispatch table); series 0..2, points per series 0..2, one value possibly missing (symbolic position), "
            "category kind in [str, number, number starting with 0, date either side of the 1900 leap-year bug, two-level]: generated "
            "XML valid against dml-chart.xsd, readers return exactly the data, idx/order unique")
def chart_generated_{ti}(ns: int, npts: int, none_at: int, ki: int) -> bool:
    """
    pre: 0 <= ns <= 2 and 0 <= npts <= 2 and -1 <= none_at < 2 and 0 <= ki < len(CAT_KINDS)
    pre: ki == 0 or not {is_xy}
    post: _
    """
    return _case({ti}, ns, npts, none_at, ki, -1, 1, 0)


@cond(timeout=1500, encodes=ENC,
      bound="chart type {tname}: a generated chart with 1..2 series of 2 points, its c:idx/c:order optionally shifted by 2 "
            "(non-contiguous, as PowerPoint leaves them), then replace_data with 1..3 series of 1..3 points (zero series would leave "
            "the plot area without a plot: outside the claim), category kind as above: XML valid, readers return exactly the new "
            "data, idx/order unique, content outside c:ser untouched")
def chart_replaced_{ti}_{ki}(ns: int, ns2: int, npts2: int, shifted: bool) -> bool:
    \"\"\"
    pre: 1 <= ns <= 2 and 1 <= ns2 <= 3 and 1 <= npts2 <= 3
    post: _
    \"\"\"
    return _case({ti}, ns, 2, -1, {ki}, ns2, npts2, 2 if shifted else 0)
'''
_GEN, _REP = _C07.split("\n\n\n@cond", 1)
_REP = "@cond" + _REP
for _ti, _t in enumerate(TYPES):
    _xy = _t in XY_TYPES + BUBBLE_TYPES
    gen(_GEN.format(ti=_ti, tname=_t.name, is_xy=_xy), globals())
    for _ki in range(1 if _xy else len(CAT_KINDS)):
        gen(_REP.format(ti=_ti, ki=_ki, tname=_t.name + " / category kind " + CAT_KINDS[_ki], is_xy=_xy), globals())


@cond(expect="refute", timeout=600, twin_of="chart_replaced_0_3")
def chart_twin(ns: int, npts: int, ki: int, ns2: int) -> bool:
    """
    pre: 1 <= ns <= 2 and 1 <= npts <= 2 and 0 <= ki < len(CAT_KINDS) and 1 <= ns2 <= 3
    post: _
    """
    t = TYPES[0]
    cd, want_series, want_cats = _build_data(t, ns, npts, -1, CAT_KINDS[ki])
    cs = parse_xml(untraced_call(XW.ChartXmlWriter, t, cd).xml.encode("utf-8"))
    cd2, want2, cats2 = _build_data(t, ns2, 3, -1, CAT_KINDS[ki], shift=5)
    XW.SeriesXmlRewriterFactory(t, cd2).replace_series_data(cs)
    got2, gcats2 = _read(cs)
    # reach: a chart grown from 1 to 3 series with date categories crossing the 1900 leap-year bug
    return not (ns == 1 and ns2 == 3 and gcats2 == ["59.0", "61.0", "42731.0"])


def _witness_errors(t):
    cd, _, _ = _build_data(t, 1, 2, -1, "str")
    return X.validate_root(S, parse_xml(XW.ChartXmlWriter(t, cd).xml.encode("utf-8")))


def negative_axis_id_witness():
    """Replay of known finding C07-negative-axis-ids (False while it reproduces)."""
    return not any("/axId: attribute val='-" in e or "/crossAx: attribute val='-" in e for e in _witness_errors(XL_CHART_TYPE.BAR_CLUSTERED))


def radar_smooth_witness():
    """Replay of known finding C07-radar-smooth (False while it reproduces)."""
    return not any("radarChart/ser" in e and "<smooth> not allowed" in e for e in _witness_errors(XL_CHART_TYPE.RADAR))


def grow_from_zero_witness():
    """Replay of known finding C07-grow-from-zero-series (False while it reproduces)."""
    t = XL_CHART_TYPE.BAR_CLUSTERED
    cd, _, _ = _build_data(t, 0, 2, -1, "str")
    cs = parse_xml(XW.ChartXmlWriter(t, cd).xml.encode("utf-8"))
    cd2, _, _ = _build_data(t, 1, 2, -1, "str")
    try:
        XW.SeriesXmlRewriterFactory(t, cd2).replace_series_data(cs)
    except AttributeError:
        return False
    return True
