"""C11 (float kernels) -- Engine S-fp: the float-input simple types are translated from the live
class source (kit/fpsmt.py) into QF_FP terms; z3 decides range, exception type and round trip over
every finite binary64 value in the stated range."""
from kit.env import *  # noqa

setup()

import random  # noqa: E402

import z3  # noqa: E402

import pptx.oxml.simpletypes as ST  # noqa: E402
from harness.C11_simpletypes import FLOAT_CLASSES  # noqa: E402
from kit.fpsmt import F64, RNE, NotEncodable, Translator, V, check, check_cvc5, fp_model_value, fpval  # noqa: E402

# quantum of the stored form, in the unit of the Python value
QUANT = {
    "ST_Angle": 1 / 60000.0, "ST_PositiveFixedAngle": 1 / 60000.0,
    "ST_Percentage": 1e-5, "ST_PositiveFixedPercentage": 1e-5,
    "ST_TextFontScalePercentOrPercentString": 1e-3, "ST_TextSpacingPercentOrPercentString": 1e-5,
}
CYCLIC = {"ST_Angle": 360.0, "ST_PositiveFixedAngle": 360.0}
# float types whose read(write(v)) obligation cvc5 decides within the thorough budget (measured: 100-300 s). For ST_Percentage, ST_Angle
# and ST_TextSpacingPercentOrPercentString cvc5 returns nothing in 1500 s, ST_PositiveFixedAngle has 60 case-split paths: their
# (and ST_Angle: 10 case-split paths, cvc5 silent after 1500 s) round trip is NOT decided by this check (stated in the evidence), only range, exception type and path exhaustiveness are.
ROUNDTRIP_DECIDED = ("ST_PositiveFixedPercentage", "ST_TextFontScalePercentOrPercentString")
RANGE = {"ST_Angle": 1440.0, "ST_PositiveFixedAngle": 1440.0}  # unvalidated inputs: bound stated in evidence
DEFAULT_RANGE = 1e9
LAST_DETAIL = None


def fp_replay(name, v):
    """Concrete check on the real class (used to replay solver models and to validate the translator)."""
    global LAST_DETAIL
    cls, (lo, hi) = FLOAT_CLASSES[name]
    try:
        s = cls.to_xml(v)
    except (TypeError, ValueError):
        return True
    except Exception as e:  # noqa: any other exception type is what the property forbids
        LAST_DETAIL = "%s.to_xml(%r) raised %s" % (name, v, type(e).__name__)
        return False
    n = int(s)
    if not (lo <= n <= hi):
        LAST_DETAIL = "%s.to_xml(%r) = %r outside XSD range %s..%s" % (name, v, s, lo, hi)
        return False
    back = cls.from_xml(s)
    q = QUANT[name]
    if name in CYCLIC:
        d = min(abs(back - (v - CYCLIC[name] * k)) for k in range(-6, 7))
    else:
        d = abs(back - v)
    if d > q:
        LAST_DETAIL = "%s: wrote %r for %r, read back %r (off by %r > quantum %r)" % (name, s, v, back, d, q)
        return False
    return True


def _concrete(T, cls, meth, arg):
    outs = T.call(cls, meth, [arg])
    hit = [o for o in outs if z3.is_true(z3.simplify(o.cond))]
    if len(hit) != 1:
        return ("ambiguous", len(hit))
    o = hit[0]
    if o.kind == "raise":
        return ("raise", o.exc)
    val = o.value
    if val.kind in ("decstr", "int"):
        if val.fp is not None:  # the FP shadow must agree with the Int term
            m = z3.Solver()
            x = z3.FP("x", F64)
            m.add(x == z3.simplify(val.fp))
            m.check()
            if fp_model_value(m.model(), x) != float(z3.simplify(val.t).as_long()):
                return ("shadow-mismatch", None)
        return ("int", z3.simplify(val.t).as_long())
    if val.kind == "fp":
        m = z3.Solver()
        x = z3.FP("x", F64)
        m.add(x == z3.simplify(val.t))
        m.check()
        return ("fp", fp_model_value(m.model(), x))
    return (val.kind, None)


def _translator(name):
    T = Translator()
    # |x| bound used to case-split `x % 21600000` on the FP shadow; justified by the exhaustiveness query Q0
    if name == "ST_Angle":
        T.int_mod_abs_bound = int(RANGE[name] * 60000) + 1
    elif name == "ST_PositiveFixedAngle":
        T.int_mod_abs_bound = 2 * 21600000 - 1  # the float operand was already reduced into [0, 360]
    return T


def _validate_translator(name, cls):
    """Push boundary and pseudo-random literals through the real function and through the terms."""
    rnd = random.Random(12345)
    lits = [0.0, -0.0, 0.5, 1.0, -1.0, 1e-6, 5e-6, 4.999999e-6, 0.999995, 0.9999949, 1.0000051, 100.0, 99.9995, 1.0005, 132.0,
            131.999996, 359.9999917, 359.99999, 360.0, -360.0, 720.5, -0.001, -1e-9, 1e-9, 45.0, -42.42, 21474.83647,
            -21474.83648, 21474.836475, 0.123456789, 42.0000083, 1439.99999, -1439.99999]
    lits += [rnd.uniform(-1440, 1440) for _ in range(120)] + [rnd.uniform(0, 1) for _ in range(40)] + [rnd.uniform(0, 132) for _ in range(40)]
    bad = []
    n = 0
    for x in lits + [float("inf"), float("-inf"), float("nan")]:
        if abs(x) > RANGE.get(name, DEFAULT_RANGE) and x == x and abs(x) != float("inf"):
            continue
        if name in CYCLIC and name != "ST_Angle" and (x != x or abs(x) == float("inf")):
            continue  # float % 360 of a non-finite value is outside the translator's case split
        T = _translator(name)
        got = _concrete(T, cls, "to_xml", V("fp", fpval(x)))
        try:
            want = ("int", int(cls.to_xml(x)))
        except (TypeError, ValueError, OverflowError) as e:
            want = ("raise", type(e).__name__)
        n += 1
        if got != want:
            bad.append(("to_xml", x, got, want))
            continue
        if want[0] == "int":
            T2 = _translator(name)
            g2 = _concrete(T2, cls, "from_xml", V("decstr", z3.IntVal(want[1]), fpval(float(want[1]))))
            w2 = ("fp", float(cls.from_xml(str(want[1]))))
            n += 1
            if g2 != w2:
                bad.append(("from_xml", want[1], g2, w2))
    return n, bad


def _obligation(name):
    cls, (lo, hi) = FLOAT_CLASSES[name]
    nlit, bad = _validate_translator(name, cls)
    if bad:
        return dict(status="error", message="translator disagrees with the real function on literals: %r" % (bad[:3],), queries=0)
    T = _translator(name)
    v = z3.FP("v", F64)
    R = RANGE.get(name, DEFAULT_RANGE)
    base = [z3.Not(z3.fpIsNaN(v)), z3.Not(z3.fpIsInf(v)), z3.fpLEQ(v, fpval(R)), z3.fpGEQ(v, fpval(-R))]
    try:
        outs = T.call(cls, "to_xml", [V("fp", v)])
    except NotEncodable as e:
        return dict(status="unknown", message="not encoded: %s" % e, queries=0)
    queries, solver_s, samples = 0, 0.0, []
    q = QUANT[name]
    # Q0: the translated paths are exhaustive over the stated input range (justifies the case splits / side bounds)
    queries += 1
    r, m, dt, s = check(base + [z3.Not(z3.Or([o.cond for o in outs]))], 300000)
    solver_s += dt
    if r != "unsat":
        return dict(status="unknown", message="path exhaustiveness query: %s" % r, queries=queries)

    def violated(kind, model, smt2):
        x = fp_model_value(model, v)
        return dict(status="violated", queries=queries, solver_s=round(solver_s, 3),
                    message="%s: %s for v=%r" % (name, kind, x), counterexample={"v": repr(x)},
                    replay={"fn": "fp_replay", "module": __name__, "args": {"name": repr(name), "v": repr(x)}}, samples=[smt2[:1500]])

    for o in outs:
        pre = base + [o.cond]
        if o.kind == "raise":
            queries += 1
            r, m, dt, s = check(pre, 60000)
            solver_s += dt
            if r == "unknown":
                return dict(status="unknown", message="raise-path feasibility unknown", queries=queries)
            if r == "sat" and o.exc not in ("TypeError", "ValueError"):
                return violated("rejected with %s, not TypeError/ValueError" % o.exc, m, s.to_smt2())
            continue
        if o.value.kind != "decstr":
            return dict(status="unknown", message="to_xml returns %s, not str(int)" % o.value.kind, queries=queries)
        n = o.value.t
        nfp = o.value.fp
        if nfp is None:
            return dict(status="unknown", message="written integer has no FP shadow (not encodable in QF_FP)", queries=queries)
        # Q1: written integer inside the XSD range (compared on the integral-valued FP shadow; lo/hi < 2**53)
        queries += 1
        r, m, dt, s = check(pre + [z3.Or(z3.fpLT(nfp, fpval(lo)), z3.fpGT(nfp, fpval(hi)))], 120000)
        solver_s += dt
        if len(samples) < 1:
            samples.append(s.to_smt2()[:1800])
        if r == "unknown":
            return dict(status="unknown", message="range query unknown after %.0fs" % dt, queries=queries)
        if r == "sat":
            return violated("written value outside XSD range %s..%s" % (lo, hi), m, s.to_smt2())
        # Q3: read(write(v)) within the quantum -- thorough tier only: z3 does not finish these (fpMul, roundToIntegral,
        # fpDiv chain) in 300 s; cvc5 1.4 answers in 2-5 min each
        if not THOROUGH or name not in ROUNDTRIP_DECIDED:
            continue  # see ROUNDTRIP_DECIDED
        T2 = _translator(name)
        for o2 in T2.call(cls, "from_xml", [V("decstr", n, nfp)]):
            pre2 = pre + [o2.cond]
            queries += 1
            if o2.kind == "raise":
                r, m, dt, s = check(pre2, 120000)
                solver_s += dt
                if r == "sat":
                    return violated("written form cannot be read back (%s)" % o2.exc, m, s.to_smt2())
                if r == "unknown":
                    return dict(status="unknown", message="read-back raise query unknown", queries=queries)
                continue
            back = o2.value.t
            if name in CYCLIC:
                far = z3.And([z3.fpGT(z3.fpAbs(z3.fpSub(RNE, back, z3.fpSub(RNE, v, fpval(CYCLIC[name] * k)))), fpval(q))
                              for k in range(-5, 6)])
            else:
                far = z3.fpGT(z3.fpAbs(z3.fpSub(RNE, back, v)), fpval(q))
            r, dt, text = check_cvc5(pre2 + [far], 1500)
            solver_s += dt
            if r == "unknown":
                return dict(status="unknown", message="round-trip query unknown (cvc5) after %.0fs" % dt, queries=queries)
            if r == "sat":
                r2, m, dt2, s = check(pre2 + [far], 1200000)  # obtain a model with z3
                solver_s += dt2
                if r2 != "sat":
                    return dict(status="unknown", message="cvc5 says sat, z3 gives %s: solvers disagree or time-out" % r2, queries=queries)
                return violated("read(write(v)) differs from v by more than the quantum %r" % q, m, s.to_smt2())
    # non-finite inputs (NaN, +-inf): where the translated paths cover them, a rejection must be TypeError/ValueError too
    nonfinite = z3.Or(z3.fpIsNaN(v), z3.fpIsInf(v))
    queries += 1
    r, m, dt, s = check([nonfinite, z3.Not(z3.Or([o.cond for o in outs]))], 120000)
    solver_s += dt
    nonfinite_covered = r == "unsat"
    if nonfinite_covered:
        for o in outs:
            if o.kind == "raise" and o.exc not in ("TypeError", "ValueError"):
                queries += 1
                r, m, dt, s = check([nonfinite, o.cond], 120000)
                solver_s += dt
                if r == "sat":
                    return violated("non-finite input rejected with %s, not TypeError/ValueError" % o.exc, m, s.to_smt2())
                if r == "unknown":
                    return dict(status="unknown", message="non-finite raise-path query unknown", queries=queries)
            elif o.kind == "return":
                queries += 1
                r, m, dt, s = check([nonfinite, o.cond], 120000)
                solver_s += dt
                if r == "sat":
                    return violated("non-finite input accepted and written", m, s.to_smt2())
    # vacuity: some value is accepted
    acc = [o for o in outs if o.kind == "return"]
    queries += 1
    r, m, dt, s = check(base + [z3.Or([o.cond for o in acc])], 60000)
    solver_s += dt
    if r != "sat":
        return dict(status="unknown", message="vacuity check: no accepted value found (%s)" % r, queries=queries)
    return dict(status="holds", queries=queries, solver_s=round(solver_s, 3), samples=samples,
                detail=dict(functions=T.encoded, literals_validated=nlit, input_range="finite binary64, |v| <= %g" % R,
                            nonfinite_inputs="covered: rejected with TypeError/ValueError" if nonfinite_covered else "not covered by the translated paths (outside the claim)",
                            xsd_range=[lo, hi], quantum=q,
                            round_trip="decided (cvc5)" if (THOROUGH and name in ROUNDTRIP_DECIDED) else "not decided in this run"))


_SMT = '''
@smt(timeout=3000, encodes=["pptx.oxml.simpletypes:{name}.validate", "pptx.oxml.simpletypes:{name}.convert_to_xml",
                           "pptx.oxml.simpletypes:{name}.convert_from_xml"],
     bound="every finite binary64 v with |v| <= {rng}: accepted => written integer in XSD range, rejected => TypeError/ValueError, "
           "read(write(v)) within quantum (round-trip leg: thorough tier only, cvc5); NaN and +-inf covered where the translated paths reach them (all but the float-% types)")
def fp_{name}():
    return _obligation("{name}")
'''
for _n in sorted(FLOAT_CLASSES):
    if _n in QUANT:
        gen(_SMT.format(name=_n, rng=RANGE.get(_n, DEFAULT_RANGE)), globals())


# ------------------------------------------------------------------ string enumerations (S-table)
@smt(timeout=120, encodes=["pptx.oxml.simpletypes:BaseStringEnumerationType.validate"],
     bound="every BaseStringEnumerationType subclass with a same-named XSD simple type: each accepted member is in the "
           "XSD enumeration (refutation query over the member index)")
def string_enumerations_in_schema():
    import inspect
    import time

    from kit import xsdmodel as X

    S = X.schemas()
    queries, samples, unmatched, t0 = 0, [], [], time.time()
    usage = _attribute_usage()
    for name, cls in inspect.getmembers(ST, inspect.isclass):
        if not issubclass(cls, ST.BaseStringEnumerationType) or not getattr(cls, "_members", None):
            continue
        # oracle: the enumeration of the same-named XSD type, united with the enumerations of the XSD attribute types
        # at every (tag, attribute) where an element class uses this simple type (a class may serve several XSD
        # types, e.g. ST_Grouping is also used where the schema says ST_BarGrouping)
        enums = [S.enumeration((st.ns, st.name)) for st in S.find_simple(name)]
        for clark, attr in usage.get(cls, ()):
            for t in X.attr_types_for(S, clark, attr):
                enums.append(S.enumeration(t))
        enums = [e for e in enums if e]
        if not enums:
            unmatched.append(name)
            continue
        members = list(cls._members)
        allowed = set().union(*enums)
        i = z3.Int("i")
        in_schema = z3.BoolVal(False)
        for k, m in enumerate(members):
            in_schema = z3.If(i == k, z3.BoolVal(m in allowed), in_schema)
        s = z3.Solver()
        s.add(0 <= i, i < len(members), z3.Not(in_schema))
        queries += 1
        r = str(s.check())
        if r == "sat":
            k = s.model()[i].as_long()
            return dict(status="violated", queries=queries, message="%s accepts %r which is not in the XSD enumeration %s" % (name, members[k], sorted(allowed)),
                        replay={"fn": "enum_replay", "module": __name__, "args": {"name": repr(name), "member": repr(members[k])}})
        if r != "unsat":
            return dict(status="unknown", queries=queries, message="%s: %s" % (name, r))
        samples.append({"class": name, "members": members, "xsd": sorted(allowed)})
    return dict(status="holds", queries=queries, solver_s=round(time.time() - t0, 3), samples=samples[:3], detail={"unmatched": unmatched})


def _attribute_usage():
    from kit import introspect

    return introspect.attribute_usage()


def enum_replay(name, member):
    from kit import xsdmodel as X

    S = X.schemas()
    cls = getattr(ST, name)
    try:
        w = cls.to_xml(member)
    except (TypeError, ValueError):
        return True
    allowed = set()
    for st in S.find_simple(name):
        allowed |= set(S.enumeration((st.ns, st.name)) or [])
    for st in S.find_simple(name.replace("ST_", "ST_Bar")):
        allowed |= set(S.enumeration((st.ns, st.name)) or [])
    return w in allowed
