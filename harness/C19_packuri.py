"""C19 -- part-name arithmetic (PackURI). See DESIGN.md section 6, C19.

Real code executed: pptx.opc.packuri.PackURI (all of it) with posixpath's pure-Python functions.
Stubs: posixpath.normpath = CPython's pure-Python body (the C accelerator realizes);
       str.__new__(PackURI, sym) returns a symbolic str carrying PackURI's own methods.
"""
from kit.env import *  # noqa

setup(length_stub=False)

from pptx.opc.package import Part, _Relationship  # noqa: E402
from pptx.opc.packuri import PackURI  # noqa: E402

MAXLEN = 12 if THOROUGH else 8
MAXSEG = 2
DEPTHS = (1, 2, 3, 4) if THOROUGH else (1, 2, 3)
ENC = ["pptx.opc.packuri:PackURI." + n for n in (
    "__new__", "from_rel_ref", "baseURI", "ext", "filename", "idx", "membername", "relative_ref", "rels_uri")] + [
    "pptx.opc.package:_Relationship.target_ref", "pptx.opc.package:_Relationship.target_partname"]
NAME_BOUND = "every str p, 2 <= len(p) <= %d, p[0]=='/', no '//', no trailing '/'" % MAXLEN


def _last_seg(p):
    i = len(p) - 1
    while i >= 0 and p[i] != "/":
        i -= 1
    return p[: i], p[i + 1 :]


# ---------------------------------------------------------------------------- accessors
@cond(timeout=120, encodes=ENC, bound=NAME_BOUND)
def split_recompose(p: str) -> bool:
    """
    pre: 2 <= len(p) <= MAXLEN
    pre: p[0] == '/'
    pre: p[-1] != '/'
    pre: '//' not in p
    post: _
    """
    u = PackURI(p)
    b, f = u.baseURI, u.filename
    d, leaf = _last_seg(p)
    return f == leaf and b == (d or "/") and u.membername == p[1:] and u == p


@cond(expect="refute", timeout=60, twin_of="split_recompose")
def split_recompose_twin(p: str) -> bool:
    """
    pre: 2 <= len(p) <= MAXLEN
    pre: p[0] == '/'
    pre: p[-1] != '/'
    pre: '//' not in p
    post: _
    """
    u = PackURI(p)
    return not (u.baseURI == "/a/b" and u.filename == "c.x")


@cond(timeout=120, encodes=ENC, bound=NAME_BOUND + "; last segment does not start with '.' (posixpath.splitext "
      "treats leading dots as part of the stem; OPC part names never start a segment with '.', outside the claim)")
def ext_is_text_after_last_dot(p: str) -> bool:
    """
    pre: 2 <= len(p) <= MAXLEN
    pre: p[0] == '/'
    pre: p[-1] != '/'
    pre: '//' not in p
    post: _
    """
    d, leaf = _last_seg(p)
    if leaf[0] == ".":
        return True
    e = PackURI(p).ext
    i = len(leaf) - 1
    while i >= 0 and leaf[i] != ".":
        i -= 1
    want = leaf[i + 1 :] if i >= 0 else ""
    return e == want


@cond(expect="refute", timeout=60, twin_of="ext_is_text_after_last_dot")
def ext_twin(p: str) -> bool:
    """
    pre: 2 <= len(p) <= MAXLEN
    pre: p[0] == '/'
    pre: p[-1] != '/'
    pre: '//' not in p
    post: _
    """
    return PackURI(p).ext != "b.c"[2:] + "d" or "." not in p[:-3]


@cond(timeout=120, encodes=ENC, bound=NAME_BOUND + " and the pseudo-name '/'")
def rels_uri_shape(p: str) -> bool:
    """
    pre: 1 <= len(p) <= MAXLEN
    pre: p[0] == '/'
    pre: len(p) == 1 or p[-1] != '/'
    pre: '//' not in p
    post: _
    """
    r = PackURI(p).rels_uri
    d, leaf = _last_seg(p)
    return r == d + "/_rels/" + leaf + ".rels"


@cond(expect="refute", timeout=60, twin_of="rels_uri_shape")
def rels_uri_twin(p: str) -> bool:
    """
    pre: 1 <= len(p) <= MAXLEN
    pre: p[0] == '/'
    pre: len(p) == 1 or p[-1] != '/'
    pre: '//' not in p
    post: _
    """
    return PackURI(p).rels_uri != "/a/_rels/b.c.rels"


@cond(timeout=60, encodes=ENC, bound="every str of length 1..6 whose first character is not '/'; and every str "
      "of length 1..6 starting with '/' is accepted")
def leading_slash_required(s: str) -> bool:
    """
    pre: 1 <= len(s) <= 6
    post: _
    """
    try:
        u = PackURI(s)
    except ValueError:
        return s[0] != "/"
    return s[0] == "/" and u == s


@cond(expect="refute", timeout=60, twin_of="leading_slash_required")
def leading_slash_twin(s: str) -> bool:
    """
    pre: 1 <= len(s) <= 6
    post: _
    """
    try:
        PackURI(s)
    except ValueError:
        return s != "ppt/x"
    return True


LETTERS = "abcdefghijklmnopqrstuvwxyzABCDEFGHIJKLMNOPQRSTUVWXYZ"


@cond(timeout=240, encodes=ENC,
      bound="names '/d/' + L + D + '.' + E with L: 1..3 ASCII letters, D: 0..3 decimal digits, E: 0..3 non-'/' non-'.' chars "
            "(without E no dot is written); idx must be int(D) or None when D is empty")
def idx_is_trailing_digits(L: str, D: str, E: str) -> bool:
    """
    pre: 1 <= len(L) <= 3 and len(D) <= 3 and len(E) <= 3
    pre: all(c in LETTERS for c in L)
    pre: all(c in '0123456789' for c in D)
    pre: all(c != '/' and c != '.' for c in E)
    post: _
    """
    name = "/d/" + L + D + (("." + E) if E else "")
    got = PackURI(name).idx
    if len(D) == 0:
        return got is None
    want = 0
    for c in D:
        want = want * 10 + (ord(c) - 48)
    return got == want


@cond(expect="refute", timeout=120, twin_of="idx_is_trailing_digits")
def idx_twin(L: str, D: str, E: str) -> bool:
    """
    pre: 1 <= len(L) <= 3 and len(D) <= 3 and len(E) <= 3
    pre: all(c in LETTERS for c in L)
    pre: all(c in '0123456789' for c in D)
    pre: all(c != '/' and c != '.' for c in E)
    post: _
    """
    name = "/d/" + L + D + (("." + E) if E else "")
    return PackURI(name).idx != 21


# ---------------------------------------------------------------------------- composition
def _seg_ok(s):
    return 1 <= len(s) <= MAXSEG and "/" not in s and s != "." and s != ".."


def _seg1_ok(s):
    return len(s) == 1 and s != "/" and s != "."


def _rt(ps, qs):
    P = "/" + "/".join(ps)
    Q = "/" + "/".join(qs)
    base = PackURI(P).baseURI
    ref = PackURI(Q).relative_ref(base)
    back = PackURI.from_rel_ref(base, ref)
    if back != Q:
        return False
    # the same round trip at the place relative references are produced for writing: a relationship from a part in P's
    # directory to part Q
    rel = _Relationship(base, "rId1", "http://x/rel", "Internal", Part(PackURI(Q), "application/octet-stream", None))
    return PackURI.from_rel_ref(base, rel.target_ref) == Q


_RT = '''
@cond(timeout={to}, encodes=ENC, tiers={tiers!r},
      bound="P of depth {dp}, Q of depth {dq}; every segment any str of length {lens} without '/', not '.' or '..'")
def roundtrip_{dp}_{dq}{sfx}({params}) -> bool:
    """
    pre: {pre}
    post: _
    """
    return _rt([{pa}], [{qa}])
'''
# segment length 1..2: depth <= 2 in quick (measured 1-80 s each), depth 3 in thorough only (3_1: 177 s; others > 300 s)
# segment length exactly 1: depth 3 in quick, depth 4 in thorough
for _dp in (1, 2, 3, 4):
    for _dq in (1, 2, 3, 4):
        _pa = ["p%d" % i for i in range(_dp)]
        _qa = ["q%d" % i for i in range(_dq)]
        _d = max(_dp, _dq)
        _params = ", ".join(a + ": str" for a in _pa + _qa)
        if _d <= 3 and not (_dp == 3 and _dq == 3):  # 3x3 with segments of length 1..2 does not finish in 2400 s (1412 paths): length 1 only
            gen(_RT.format(dp=_dp, dq=_dq, sfx="", params=_params, lens="1..2",
                           pre=" and ".join("_seg_ok(%s)" % a for a in _pa + _qa), pa=", ".join(_pa), qa=", ".join(_qa),
                           to=300 if _d <= 2 else 2400, tiers=("quick", "thorough") if _d <= 2 else ("thorough",)), globals())
        if _d >= 3:
            gen(_RT.format(dp=_dp, dq=_dq, sfx="_len1", params=_params, lens="exactly 1",
                           pre=" and ".join("_seg1_ok(%s)" % a for a in _pa + _qa), pa=", ".join(_pa), qa=", ".join(_qa),
                           to=300 if _d == 3 else 1200, tiers=("quick", "thorough") if _d == 3 else ("thorough",)), globals())


@cond(expect="refute", timeout=120, twin_of="roundtrip_2_2")
def roundtrip_twin(p0: str, p1: str, q0: str, q1: str) -> bool:
    """
    pre: _seg_ok(p0) and _seg_ok(p1) and _seg_ok(q0) and _seg_ok(q1)
    post: _
    """
    P = "/" + p0 + "/" + p1
    Q = "/" + q0 + "/" + q1
    base = PackURI(P).baseURI
    ref = PackURI(Q).relative_ref(base)
    return ref != "../b/c"


# ---------------------------------------------------------------------------- RFC 3986 resolution
def _remove_dot_segments(path):
    """RFC 3986 section 5.2.4, written directly from the RFC (independent reference)."""
    out = []
    inp = path
    while inp:
        if inp.startswith("../"):
            inp = inp[3:]
        elif inp.startswith("./"):
            inp = inp[2:]
        elif inp.startswith("/./"):
            inp = inp[2:]
        elif inp == "/.":
            inp = "/"
        elif inp.startswith("/../"):
            inp = inp[3:]
            if out:
                out.pop()
        elif inp == "/..":
            inp = "/"
            if out:
                out.pop()
        elif inp == "." or inp == "..":
            inp = ""
        else:
            j = inp.find("/", 1)
            if j < 0:
                out.append(inp)
                inp = ""
            else:
                out.append(inp[:j])
                inp = inp[j:]
    return "".join(out)


def _rfc_resolve(base_dir, ref):
    if ref.startswith("/"):
        merged = ref
    else:
        merged = (base_dir if base_dir.endswith("/") else base_dir + "/") + ref
    return _remove_dot_segments(merged)


REF_SEGS = [".", "..", "a", "b1", "c.x"]
BASES = ["/", "/a", "/a/b1"]


@cond(timeout=300, encodes=ENC,
      bound="base directory in ['/', '/a', '/a/b1']; reference = optional leading '/', then 1..3 segments each chosen from "
            "['.', '..', 'a', 'b1', 'c.x'], last one not '.' or '..' (a reference names a part); compared with RFC 3986 "
            "5.2.4 remove_dot_segments (930 index combinations, explored exhaustively)")
def rfc3986_resolution(nb: int, absolute: bool, nr: int, r0: int, r1: int, r2: int) -> bool:
    """
    pre: 0 <= nb <= 2 and 1 <= nr <= 3
    pre: 0 <= r0 < 5 and 0 <= r1 < 5 and 0 <= r2 < 5
    post: _
    """
    segs = [REF_SEGS[r0], REF_SEGS[r1], REF_SEGS[r2]][:nr]
    if segs[-1] in (".", ".."):
        return True
    base = BASES[nb]
    ref = ("/" if absolute else "") + "/".join(segs)
    got = PackURI.from_rel_ref(base, ref)
    return got == _rfc_resolve(base, ref)


@cond(expect="refute", timeout=120, twin_of="rfc3986_resolution")
def rfc3986_twin(nb: int, absolute: bool, nr: int, r0: int, r1: int, r2: int) -> bool:
    """
    pre: 0 <= nb <= 2 and 1 <= nr <= 3
    pre: 0 <= r0 < 5 and 0 <= r1 < 5 and 0 <= r2 < 5
    post: _
    """
    segs = [REF_SEGS[r0], REF_SEGS[r1], REF_SEGS[r2]][:nr]
    base = BASES[nb]
    ref = ("/" if absolute else "") + "/".join(segs)
    return not (base == "/a/b1" and ref == "../c.x")


_SYM = '''
@cond(timeout=300, encodes=ENC,
      bound="base '/'+s0+'/'+s1, reference '../'*{k} + t0{plus}; s*, t* symbolic strs of length 1..2 without '/', not "
            "'.' or '..'; expected value: '..' pops one base segment, never above the root (RFC 3986 5.2.4)")
def rfc3986_symbolic_k{k}_{n}(s0: str, s1: str, t0: str{t1p}) -> bool:
    """
    pre: _seg_ok(s0) and _seg_ok(s1) and _seg_ok(t0){t1ok}
    post: _
    """
    base = "/" + s0 + "/" + s1
    ref = "../" * {k} + t0{t1cat}
    keep = [s0, s1][: max(0, 2 - {k})]
    want = "/" + "/".join(keep + [t0{t1lst}])
    return PackURI.from_rel_ref(base, ref) == want
'''
for _k in (0, 1, 2, 3):
    gen(_SYM.format(k=_k, n=1, plus="", t1p="", t1ok="", t1cat="", t1lst=""), globals())
    gen(_SYM.format(k=_k, n=2, plus=" + '/' + t1", t1p=", t1: str", t1ok=" and _seg_ok(t1)", t1cat=' + "/" + t1', t1lst=", t1"), globals())


@cond(timeout=300, encodes=ENC,
      bound="root-absolute reference '/'+t0[+'/'+t1] against base '/'+s0: result is the reference itself")
def rfc3986_absolute_symbolic(s0: str, t0: str, t1: str, two: bool) -> bool:
    """
    pre: _seg_ok(s0) and _seg_ok(t0) and _seg_ok(t1)
    post: _
    """
    ref = "/" + t0 + (("/" + t1) if two else "")
    return PackURI.from_rel_ref("/" + s0, ref) == ref
