"""C19 -- part-name arithmetic (PackURI). See DESIGN.md section 6, C19."""
from kit.env import *  # noqa

setup(length_stub=False)

import posixpath  # noqa: E402

from pptx.opc.packuri import PackURI  # noqa: E402

MAXLEN = 12 if THOROUGH else 8


def _valid_name(p):
    return len(p) >= 2 and p[0] == "/" and p[-1] != "/" and "//" not in p


@cond(expect="confirm", timeout=90, encodes=["pptx.opc.packuri:PackURI.baseURI", "pptx.opc.packuri:PackURI.filename"],
      bound="all strings p with 2 <= len(p) <= MAXLEN (8 quick / 12 thorough), leading '/', no '//', no trailing '/'")
def split_recompose(p: str) -> bool:
    """
    pre: 2 <= len(p) <= MAXLEN
    pre: p[0] == '/'
    pre: p[-1] != '/'
    pre: '//' not in p
    post: _
    """
    b = PackURI.baseURI.fget(p)
    f = PackURI.filename.fget(p)
    return (b if b == "/" else b + "/") + f == p and "/" not in f and (b == "/" or not b.endswith("/"))


@cond(expect="refute", timeout=60, twin_of="split_recompose")
def split_recompose_twin(p: str) -> bool:
    """
    pre: 2 <= len(p) <= MAXLEN
    pre: p[0] == '/'
    pre: p[-1] != '/'
    pre: '//' not in p
    post: _
    """
    b = PackURI.baseURI.fget(p)
    f = PackURI.filename.fget(p)
    return not (b == "/a/b" and f == "c.x")
