"""C17 -- connector endpoints, group extents, freeform bounds. See DESIGN.md section 6, C17."""
from kit.env import *  # noqa

setup()

from pptx.oxml import parse_xml  # noqa: E402
from pptx.oxml.ns import nsdecls  # noqa: E402
from pptx.oxml.shapes.connector import CT_Connector  # noqa: E402
from pptx.shapes.connector import Connector  # noqa: E402
from pptx.shapes.freeform import FreeformBuilder  # noqa: E402
from pptx.shapes.shapetree import SlideShapes, GroupShapes  # noqa: E402
from pptx.util import Emu  # noqa: E402

MAXC = 2**40 if THOROUGH else 10**7
ENC_CX = ["pptx.shapes.connector:Connector." + n for n in ("begin_x", "begin_y", "end_x", "end_y")] + [
    "pptx.shapes.shapetree:_BaseGroupShapes._add_cxnSp", "pptx.oxml.shapes.connector:CT_Connector.new_cxnSp"]
CXB = "x, y, cx, cy, new coordinate: every int in 0..MAXC (10^7 quick, 2^40 thorough); flipH/flipV symbolic"


def _mk(x, y, cx, cy, flipH, flipV):
    sp = CT_Connector.new_cxnSp(2, "Connector 1", "line", 0, 0, 0, 0, False, False)
    sp.x = x
    sp.y = y
    sp.cx = cx
    sp.cy = cy
    sp.flipH = flipH
    sp.flipV = flipV
    return Connector(sp, None)


def _pts(c):
    return (c.begin_x, c.begin_y, c.end_x, c.end_y)


_MOVE = '''
@cond(timeout=120, encodes=ENC_CX, bound=CXB)
def move_{which}(x: int, y: int, cx: int, cy: int, flipH: bool, flipV: bool, v: int) -> bool:
    """
    pre: 0 <= x <= MAXC and 0 <= y <= MAXC and 0 <= cx <= MAXC and 0 <= cy <= MAXC and 0 <= v <= MAXC
    post: _
    """
    c = _mk(x, y, cx, cy, flipH, flipV)
    before = _pts(c)
    c.{which} = v
    after = _pts(c)
    want = list(before)
    want[{i}] = v
    e = c._element
    return list(after) == want and e.cx >= 0 and e.cy >= 0


@cond(expect="refute", timeout=60, twin_of="move_{which}")
def move_{which}_twin(x: int, y: int, cx: int, cy: int, flipH: bool, flipV: bool, v: int) -> bool:
    """
    pre: 0 <= x <= MAXC and 0 <= y <= MAXC and 0 <= cx <= MAXC and 0 <= cy <= MAXC and 0 <= v <= MAXC
    post: _
    """
    c = _mk(x, y, cx, cy, flipH, flipV)
    f0 = (c._element.flipH, c._element.flipV)
    c.{which} = v
    return (c._element.flipH, c._element.flipV) == f0
'''
for _i, _w in enumerate(("begin_x", "begin_y", "end_x", "end_y")):
    gen(_MOVE.format(which=_w, i=_i), globals())

_MOVE2 = '''
@cond(timeout=300, encodes=ENC_CX, tiers=("thorough",), bound=CXB + "; two consecutive moves")
def move2_{a}_{b}(x: int, cx: int, y: int, cy: int, flipH: bool, flipV: bool, v: int, w: int) -> bool:
    """
    pre: 0 <= x <= MAXC and 0 <= cx <= MAXC and 0 <= y <= MAXC and 0 <= cy <= MAXC and 0 <= v <= MAXC and 0 <= w <= MAXC
    post: _
    """
    c = _mk(x, y, cx, cy, flipH, flipV)
    want = list(_pts(c))
    c.{a} = v
    want[{ia}] = v
    c.{b} = w
    want[{ib}] = w
    e = c._element
    return list(_pts(c)) == want and e.cx >= 0 and e.cy >= 0
'''
_names = ("begin_x", "begin_y", "end_x", "end_y")
for _ia, _a in enumerate(_names):
    for _ib, _b in enumerate(_names):
        gen(_MOVE2.format(a=_a, b=_b, ia=_ia, ib=_ib), globals())


class _Part:
    pass


def _sptree():
    return parse_xml(
        "<p:spTree %s><p:nvGrpSpPr><p:cNvPr id=\"1\" name=\"\"/><p:cNvGrpSpPr/><p:nvPr/></p:nvGrpSpPr>"
        "<p:grpSpPr/></p:spTree>" % nsdecls("p", "a")
    )


@cond(timeout=180, encodes=ENC_CX + ["pptx.shapes.shapetree:_BaseGroupShapes.add_connector"],
      bound="begin/end coordinates: every int in 0..MAXC; creation through SlideShapes.add_connector on an empty spTree")
def created_connector_reports_its_points(bx: int, by: int, ex: int, ey: int) -> bool:
    """
    pre: 0 <= bx <= MAXC and 0 <= by <= MAXC and 0 <= ex <= MAXC and 0 <= ey <= MAXC
    post: _
    """
    from pptx.enum.shapes import MSO_CONNECTOR

    shapes = SlideShapes(_sptree(), None)
    c = shapes.add_connector(MSO_CONNECTOR.STRAIGHT, bx, by, ex, ey)
    e = c._element
    return _pts(c) == (bx, by, ex, ey) and e.cx >= 0 and e.cy >= 0


@cond(expect="refute", timeout=120, twin_of="created_connector_reports_its_points")
def created_connector_twin(bx: int, by: int, ex: int, ey: int) -> bool:
    """
    pre: 0 <= bx <= MAXC and 0 <= by <= MAXC and 0 <= ex <= MAXC and 0 <= ey <= MAXC
    post: _
    """
    from pptx.enum.shapes import MSO_CONNECTOR

    shapes = SlideShapes(_sptree(), None)
    c = shapes.add_connector(MSO_CONNECTOR.STRAIGHT, bx, by, ex, ey)
    return not (c._element.flipH and not c._element.flipV and c._element.cx == 5)


# ------------------------------------------------------------------------------------ groups
from pptx.enum.shapes import MSO_CONNECTOR, MSO_SHAPE  # noqa: E402

ENC_GRP = ["pptx.oxml.shapes.groupshape:CT_GroupShape.recalculate_extents",
           "pptx.oxml.shapes.groupshape:CT_GroupShape._child_extents",
           "pptx.shapes.shapetree:_BaseGroupShapes.add_shape", "pptx.shapes.shapetree:_BaseGroupShapes.add_textbox",
           "pptx.shapes.shapetree:_BaseGroupShapes.add_connector", "pptx.shapes.shapetree:_BaseGroupShapes.add_group_shape",
           "pptx.shapes.shapetree:GroupShapes._recalculate_extents", "pptx.shapes.freeform:FreeformBuilder.convert_to_shape"]
GC = 10**7


def _bbox_ok(grpSp):
    """off/ext and chOff/chExt of grpSp equal the bounding box of its member shapes, recursively."""
    members = list(grpSp.iter_shape_elms())
    ok = True
    for m in members:
        if m.tag.endswith("}grpSp"):
            ok = ok and _bbox_ok(m)
    if not members:
        return ok
    minx = min(m.x for m in members)
    miny = min(m.y for m in members)
    maxx = max(m.x + m.cx for m in members)
    maxy = max(m.y + m.cy for m in members)
    xf = grpSp.grpSpPr.xfrm
    return (ok and grpSp.x == minx and grpSp.y == miny and grpSp.cx == maxx - minx and grpSp.cy == maxy - miny
            and xf.chOff.x == minx and xf.chOff.y == miny and xf.chExt.cx == maxx - minx and xf.chExt.cy == maxy - miny)


def _ok4(*v):
    return all(0 <= a <= GC for a in v)


_GRP2 = '''
@cond(timeout=600, encodes=ENC_GRP,
      bound="nesting depth 2; g1 = [autoshape, g2], g2 = [textbox] + one added connector; {ax} positions and sizes every "
            "int in 0..10^7, the other axis concrete (x and y are computed by separate expressions sharing no state)")
def group_extents_depth2_{ax}(p1: int, s1: int, p2: int, s2: int, b: int, e: int) -> bool:
    """
    pre: _ok4(p1, s1, p2, s2) and _ok4(b, e, 0, 0)
    post: _
    """
    shapes = SlideShapes(_sptree(), None)
    g1 = shapes.add_group_shape()
    g1.shapes.add_shape(MSO_SHAPE.RECTANGLE, {a1})
    g2 = g1.shapes.add_group_shape()
    g2.shapes.add_textbox({a2})
    g2.shapes.add_connector(MSO_CONNECTOR.STRAIGHT, {a3})
    return _bbox_ok(g1._element)


@cond(timeout=1800, encodes=ENC_GRP, tiers=("thorough",),
      bound="as group_extents_depth2_{ax} plus a further autoshape added to g1 afterwards; invariant checked after every addition")
def group_extents_depth2_more_{ax}(p1: int, s1: int, p2: int, s2: int, b: int, e: int, p3: int, s3: int) -> bool:
    """
    pre: _ok4(p1, s1, p2, s2) and _ok4(b, e, p3, s3)
    post: _
    """
    shapes = SlideShapes(_sptree(), None)
    g1 = shapes.add_group_shape()
    g1.shapes.add_shape(MSO_SHAPE.RECTANGLE, {a1})
    g2 = g1.shapes.add_group_shape()
    g2.shapes.add_textbox({a2})
    ok = _bbox_ok(g1._element)
    g2.shapes.add_connector(MSO_CONNECTOR.STRAIGHT, {a3})
    ok = ok and _bbox_ok(g1._element)
    g1.shapes.add_shape(MSO_SHAPE.OVAL, {a4})
    return ok and _bbox_ok(g1._element)
'''
gen(_GRP2.format(ax="x", a1="p1, 40, s1, 10", a2="p2, 20, s2, 50", a3="b, 90, e, 5", a4="p3, 0, s3, 30"), globals())
gen(_GRP2.format(ax="y", a1="40, p1, 10, s1", a2="20, p2, 50, s2", a3="90, b, 5, e", a4="0, p3, 30, s3"), globals())


@cond(expect="refute", timeout=120, twin_of="group_extents_depth2_x")
def group_extents_twin(x1: int, y1: int, w1: int, h1: int, x2: int, y2: int, w2: int, h2: int) -> bool:
    """
    pre: _ok4(x1, y1, w1, h1) and _ok4(x2, y2, w2, h2)
    post: _
    """
    shapes = SlideShapes(_sptree(), None)
    g1 = shapes.add_group_shape()
    g1.shapes.add_shape(MSO_SHAPE.RECTANGLE, x1, y1, w1, h1)
    g2 = g1.shapes.add_group_shape()
    g2.shapes.add_textbox(x2, y2, w2, h2)
    # reach: inner group strictly extends the outer one to the left and the outer box is wider than either member
    return not (g1.left == x2 and x2 < x1 and g1.width > w1 and g1.width > w2)


_GRP3 = '''
@cond(timeout=2400, encodes=ENC_GRP, tiers=("thorough",),
      bound="nesting depth 3: g1 = [sp, g2], g2 = [sp, g3], g3 = [sp] + one added textbox; {ax} positions and sizes every int "
            "in 0..10^7, other axis concrete")
def group_extents_depth3_{ax}(p1: int, s1: int, p2: int, s2: int, p3: int, s3: int, p4: int, s4: int) -> bool:
    """
    pre: _ok4(p1, s1, p2, s2) and _ok4(p3, s3, p4, s4)
    post: _
    """
    shapes = SlideShapes(_sptree(), None)
    g1 = shapes.add_group_shape()
    g1.shapes.add_shape(MSO_SHAPE.RECTANGLE, {a1})
    g2 = g1.shapes.add_group_shape()
    g2.shapes.add_shape(MSO_SHAPE.RECTANGLE, {a2})
    g3 = g2.shapes.add_group_shape()
    g3.shapes.add_shape(MSO_SHAPE.RECTANGLE, {a3})
    g3.shapes.add_textbox({a4})
    return _bbox_ok(g1._element)
'''
gen(_GRP3.format(ax="x", a1="p1, 40, s1, 10", a2="p2, 20, s2, 50", a3="p3, 90, s3, 5", a4="p4, 0, s4, 30"), globals())
gen(_GRP3.format(ax="y", a1="40, p1, 10, s1", a2="20, p2, 50, s2", a3="90, p3, 5, s3", a4="0, p4, 30, s4"), globals())


_GFF = '''
@cond(timeout=400, encodes=ENC_GRP,
      bound="group g = [autoshape]; then a freeform (start + 2 vertices, scale 1) is added to g at a symbolic origin; "
            "{ax} values every int in 0..10^7, other axis concrete; the group must be the bounding box of both")
def group_extents_after_freeform_{ax}(p1: int, s1: int, v: int, o: int) -> bool:
    """
    pre: _ok4(p1, s1, v, o)
    post: _
    """
    shapes = SlideShapes(_sptree(), None)
    g = shapes.add_group_shape()
    g.shapes.add_shape(MSO_SHAPE.RECTANGLE, {a1})
    fb = g.shapes.build_freeform(0, 0, scale=1)
    fb.add_line_segments({segs})
    fb.convert_to_shape({org})
    return _bbox_ok(g._element)
'''
gen(_GFF.format(ax="x", a1="p1, 40, s1, 10", segs="[(v, 0), (v, 25)]", org="o, 3"), globals())
gen(_GFF.format(ax="y", a1="40, p1, 10, s1", segs="[(25, 0), (25, v)]", org="3, o"), globals())


# ------------------------------------------------------------------------------------ freeform
ENC_FF = ["pptx.shapes.freeform:FreeformBuilder." + n for n in (
    "new", "add_line_segments", "move_to", "convert_to_shape", "shape_offset_x", "shape_offset_y", "_dx", "_dy",
    "_left", "_top", "_width", "_height", "_local_to_shape", "_start_path", "_add_freeform_sp")] + [
    "pptx.shapes.freeform:_LineSegment.apply_operation_to", "pptx.shapes.freeform:_MoveTo.apply_operation_to",
    "pptx.shapes.shapetree:_BaseGroupShapes.build_freeform"]
FC = 10**7
SCALES = [1, 3]  # Python ints: the arithmetic stays in integers (float scales make every product a symbolic real)


def _ff_check(sp, pts, ox, oy, sx, sy):
    xs = [p[0] for p in pts]
    ys = [p[1] for p in pts]
    minx, maxx, miny, maxy = min(xs), max(xs), min(ys), max(ys)
    path = sp.xpath(".//a:path")[0]
    w, h = int(path.get("w")), int(path.get("h"))
    ok = w == maxx - minx and h == maxy - miny
    got = [(int(pt.get("x")), int(pt.get("y"))) for pt in path.xpath(".//a:pt")]
    ok = ok and len(got) == len(pts)
    for (gx, gy), (px, py) in zip(got, pts):
        ok = ok and gx == px - minx and gy == py - miny and 0 <= gx <= w and 0 <= gy <= h
    ok = ok and sp.x == ox + int(minx * sx) and sp.y == oy + int(miny * sy)
    ok = ok and sp.cx == int((maxx - minx) * sx) and sp.cy == int((maxy - miny) * sy)
    return ok


_FF1 = '''
@cond(timeout=400, encodes=ENC_FF,
      bound="one contour: start + n<=3 vertices; {ax} coordinates any int in -10^7..10^7 (the other axis concrete: the code "
            "paths for x and y are separate functions and share no state), origin any int in 0..10^7, scale on this "
            "axis from [1.0, 3.0] (integer-valued: binary64 product exact), closed or open")
def freeform_one_contour_{ax}(s: int, a1: int, a2: int, a3: int, n: int, o: int, k: int, close: bool) -> bool:
    """
    pre: all(-FC <= v <= FC for v in (s, a1, a2, a3)) and 0 <= o <= FC
    pre: 1 <= n <= 3 and 0 <= k <= 1
    post: _
    """
    shapes = SlideShapes(_sptree(), None)
    other = [(5, 0), (-3, 0), (9, 0), (4, 0)]
    pts = [{mk} for (c, v) in zip(other, (s, a1, a2, a3))]
    fb = shapes.build_freeform(pts[0][0], pts[0][1], scale={scale})
    verts = pts[1:][:n]
    fb.add_line_segments(verts, close=close)
    shape = fb.convert_to_shape({origin})
    return _ff_check(shape._element, [pts[0]] + verts, {oxy}, {sxy})


@cond(timeout=400, encodes=ENC_FF,
      bound="two contours: start, 1 vertex, move_to, 1 vertex; {ax} coordinates any int in -10^7..10^7 (other axis "
            "concrete), origin any int in 0..10^7, scale 1.0")
def freeform_two_contours_{ax}(s: int, a1: int, m: int, a2: int, o: int) -> bool:
    """
    pre: all(-FC <= v <= FC for v in (s, a1, m, a2)) and 0 <= o <= FC
    post: _
    """
    shapes = SlideShapes(_sptree(), None)
    other = [(5, 0), (-3, 0), (9, 0), (4, 0)]
    pts = [{mk} for (c, v) in zip(other, (s, a1, m, a2))]
    fb = shapes.build_freeform(pts[0][0], pts[0][1], scale=1)
    fb.add_line_segments([pts[1]], close=True)
    fb.move_to(pts[2][0], pts[2][1])
    fb.add_line_segments([pts[3]], close=False)
    shape = fb.convert_to_shape({origin})
    return _ff_check(shape._element, pts, {oxy}, 1, 1)
'''
gen(_FF1.format(ax="x", mk="(v, c[0])", scale="(SCALES[k], 1)", origin="o, 7", oxy="o, 7", sxy="SCALES[k], 1"), globals())
gen(_FF1.format(ax="y", mk="(c[0], v)", scale="(1, SCALES[k])", origin="7, o", oxy="7, o", sxy="1, SCALES[k]"), globals())


@cond(timeout=300, encodes=ENC_FF, bound="as freeform_two_contours_x, x and y both symbolic but only 2 points + move_to")
def freeform_two_contours(sx: int, sy: int, mx: int, my: int, x2: int, y2: int, ox: int, oy: int) -> bool:
    """
    pre: all(-FC <= v <= FC for v in (sx, sy, mx, my, x2, y2)) and 0 <= ox <= FC and 0 <= oy <= FC
    post: _
    """
    shapes = SlideShapes(_sptree(), None)
    fb = shapes.build_freeform(sx, sy, scale=1)
    fb.move_to(mx, my)
    fb.add_line_segments([(x2, y2)], close=False)
    shape = fb.convert_to_shape(ox, oy)
    return _ff_check(shape._element, [(sx, sy), (mx, my), (x2, y2)], ox, oy, 1, 1)


_FF2 = '''
@cond(timeout=600, encodes=ENC_FF + ["pptx.shapes.freeform:FreeformBuilder.shape_offset_x", "pptx.shapes.freeform:FreeformBuilder.shape_offset_y"],
      bound="a builder used in steps: start + 1 vertex, then (symbolically chosen) a first convert_to_shape and/or a read of "
            "shape_offset_x/_y, then move_to + 1 more vertex, then the final convert_to_shape; {ax} coordinates any int in "
            "-10^7..10^7 (other axis concrete), origin 0..10^7, scale 1: the final shape has the bounds of all its vertices, the first "
            "one those of its own")
def freeform_builder_reused_{ax}(s: int, a1: int, m: int, a2: int, o: int, convert_first: bool, read_first: bool) -> bool:
    """
    pre: all(-FC <= v <= FC for v in (s, a1, m, a2)) and 0 <= o <= FC
    post: _
    """
    shapes = SlideShapes(_sptree(), None)
    other = [(5, 0), (-3, 0), (9, 0), (-4, 0)]
    pts = [{mk} for (c, v) in zip(other, (s, a1, m, a2))]
    fb = shapes.build_freeform(pts[0][0], pts[0][1], scale=1)
    fb.add_line_segments([pts[1]], close=False)
    ok = True
    if read_first:
        ok = ok and fb.shape_offset_x == min(pts[0][0], pts[1][0]) and fb.shape_offset_y == min(pts[0][1], pts[1][1])
    if convert_first:
        first = fb.convert_to_shape({origin})
        ok = ok and _ff_check(first._element, pts[:2], {oxy}, 1, 1)
    fb.move_to(pts[2][0], pts[2][1])
    fb.add_line_segments([pts[3]], close=False)
    shape = fb.convert_to_shape({origin})
    return ok and _ff_check(shape._element, pts, {oxy}, 1, 1)
'''
gen(_FF2.format(ax="x", mk="(v, c[0])", origin="o, 7", oxy="o, 7"), globals())
gen(_FF2.format(ax="y", mk="(c[0], v)", origin="7, o", oxy="7, o"), globals())


@cond(expect="refute", timeout=120, twin_of="freeform_two_contours")
def freeform_twin(sx: int, sy: int, x1: int, y1: int, mx: int, my: int, x2: int, y2: int) -> bool:
    """
    pre: all(-FC <= v <= FC for v in (sx, sy, x1, y1, mx, my, x2, y2))
    post: _
    """
    shapes = SlideShapes(_sptree(), None)
    fb = shapes.build_freeform(sx, sy)
    fb.add_line_segments([(x1, y1)], close=True)
    fb.move_to(mx, my)
    fb.add_line_segments([(x2, y2)], close=False)
    sp = fb.convert_to_shape(0, 0)._element
    # reach: the move_to point alone is the leftmost extreme and the shape is offset to a negative position
    return not (sp.x == mx and mx < sx and mx < x1 and mx < x2 and mx < 0)
