"""C20 -- enumerations and the preset-shape table agree with the standard. DESIGN.md section 6, C20.

X (CrossHair): the real BaseXmlEnum.from_xml / to_xml on a symbolic member index (the solver picks the member);
               add_shape + auto_shape_type round trip over a symbolic index into all auto-shape types.
S (z3)       : table refutation queries generated from the live enum classes, pptx.spec.autoshape_types, the XSD
               enumerations and presetShapeDefinitions.xml; a model names the offending member.
"""
from kit.env import *  # noqa

setup()

import importlib  # noqa: E402
import os  # noqa: E402
import time  # noqa: E402
import xml.etree.ElementTree as ET  # noqa: E402

import z3  # noqa: E402

from kit import introspect  # noqa: E402
from kit import xsdmodel as X  # noqa: E402
from pptx.enum.base import BaseXmlEnum  # noqa: E402

ENUM_MODULES = ["pptx.enum.action", "pptx.enum.chart", "pptx.enum.dml", "pptx.enum.lang", "pptx.enum.shapes", "pptx.enum.text"]
ENUMS = {}
for _m in ENUM_MODULES:
    _mod = importlib.import_module(_m)
    for _n, _c in sorted(vars(_mod).items()):
        if (isinstance(_c, type) and issubclass(_c, BaseXmlEnum) and _c is not BaseXmlEnum and _c.__module__ == _m
                and _c.__name__ == _n):  # skip alias names such as MSO_SHAPE = MSO_AUTO_SHAPE_TYPE
            ENUMS[_n] = _c
MEMBERS = {n: [m for m in c] for n, c in ENUMS.items()}
XMEMBERS = {n: [m for m in c if m.xml_value] for n, c in ENUMS.items()}
LAST_DETAIL = None
S = X.schemas()
ENC_ENUM = ["pptx.enum.base:BaseXmlEnum.from_xml", "pptx.enum.base:BaseXmlEnum.to_xml"]


def _roundtrip(name, i):
    m = XMEMBERS[name][i]
    cls = ENUMS[name]
    tok = cls.to_xml(m)
    # history independence: a lookup of the same token in another enumeration earlier in the process ('wave' is both a preset
    # shape and a pattern; 'dash', 'dot', 'l', 'r', 'ctr', ... recur too) must not influence this one
    for other in TOKEN_OWNERS.get(tok, ()):
        if other is not cls:
            other.from_xml(tok)
    return tok == m.xml_value and cls.from_xml(tok) is m and cls.to_xml(int(m)) == tok


TOKEN_OWNERS = {}
for _en, _ms in XMEMBERS.items():
    for _m in _ms:
        if ENUMS[_en] not in TOKEN_OWNERS.setdefault(_m.xml_value, []):
            TOKEN_OWNERS[_m.xml_value].append(ENUMS[_en])

_RT = '''
@cond(timeout=300, encodes=ENC_ENUM, bound="every member of {name} that has an XML value ({n} members; symbolic member index), after a "
      "lookup of the same token in every other enumeration that has it")
def roundtrip_{name}(i: int) -> bool:
    """
    pre: 0 <= i < {n}
    pre: not excluded("roundtrip_{name}", member=XMEMBERS["{name}"][i].name)
    post: _
    """
    return _roundtrip("{name}", i)
'''
for _n in sorted(ENUMS):
    if XMEMBERS[_n]:
        gen(_RT.format(name=_n, n=len(XMEMBERS[_n])), globals())


@cond(expect="refute", timeout=60, twin_of="roundtrip_MSO_AUTO_SHAPE_TYPE")
def roundtrip_twin(i: int) -> bool:
    """
    pre: 0 <= i < len(XMEMBERS["MSO_AUTO_SHAPE_TYPE"])
    post: _
    """
    return ENUMS["MSO_AUTO_SHAPE_TYPE"].to_xml(XMEMBERS["MSO_AUTO_SHAPE_TYPE"][i]) != "wedgeEllipseCallout"


@cond(timeout=300, encodes=ENC_ENUM, bound="every member of MSO_LANGUAGE_ID without an XML value: to_xml raises ValueError; "
      "from_xml of the empty string and of a non-token raises ValueError")
def unmapped_is_rejected(i: int) -> bool:
    """
    pre: 0 <= i < len(MEMBERS["MSO_LANGUAGE_ID"])
    post: _
    """
    cls = ENUMS["MSO_LANGUAGE_ID"]
    m = MEMBERS["MSO_LANGUAGE_ID"][i]
    ok = True
    if not m.xml_value:
        try:
            cls.to_xml(m)
            ok = False
        except ValueError:
            pass
    for s in ("", "zz-ZZ"):
        try:
            cls.from_xml(s)
            ok = False
        except ValueError:
            pass
    return ok


# ------------------------------------------------------------------ S-table queries
def _table_query(n, pred):
    """exists index i in [0, n) with pred(i) true? pred given as a Python list of bools -> z3 If-chain."""
    i = z3.Int("i")
    t = z3.BoolVal(False)
    for k, b in enumerate(pred):
        t = z3.If(i == k, z3.BoolVal(bool(b)), t)
    s = z3.Solver()
    s.add(0 <= i, i < n, t)
    r = str(s.check())
    return r, (s.model()[i].as_long() if r == "sat" else None)


def tokens_replay(enum, member):
    """Concrete replay: is `member`'s token shared with an earlier member / absent from the schema?"""
    cls = ENUMS[enum]
    m = cls[member]
    return cls.from_xml(cls.to_xml(m)) is m


@smt(timeout=300, encodes=ENC_ENUM,
     bound="all XML-mapped enumerations: no two distinct members share a token (listed known findings excluded from the search)")
def tokens_are_distinct():
    t0 = time.time()
    queries, samples = 0, []
    for name in sorted(ENUMS):
        ms = XMEMBERS[name]
        first = {}
        dup = []
        for m in ms:
            dup.append(m.xml_value in first and not excluded("tokens_are_distinct", enum=name, member=m.name))
            first.setdefault(m.xml_value, m)
        queries += 1
        r, k = _table_query(len(ms), dup)
        if r == "sat":
            m = ms[k]
            return dict(status="violated", queries=queries,
                        message="%s.%s shares XML token %r with %s" % (name, m.name, m.xml_value, first[m.xml_value].name),
                        replay={"fn": "tokens_replay", "module": __name__, "args": {"enum": repr(name), "member": repr(m.name)}})
        if r != "unsat":
            return dict(status="unknown", queries=queries, message=r)
        samples.append({"enum": name, "members_with_token": len(ms)})
    return dict(status="holds", queries=queries, solver_s=round(time.time() - t0, 3), samples=samples[:4])


def schema_replay(enum, member):
    global LAST_DETAIL
    allowed = _schema_tokens().get(enum)
    tok = ENUMS[enum][member].xml_value
    if allowed is None or tok in allowed:
        return True
    LAST_DETAIL = "%s.%s token %r not in schema enumeration" % (enum, member, tok)
    return False


def _schema_tokens():
    """enum class name -> union of XSD enumerations at every (tag, attribute) that uses the enum as its simple type."""
    out = {}
    usage = introspect.attribute_usage() if not REAL else _usage_from_file()
    for cls, sites in usage.items():
        if isinstance(cls, type) and issubclass(cls, BaseXmlEnum):
            allowed = set()
            for clark, attr in sites:
                for t in X.attr_types_for(S, clark, attr):
                    for member in S.union_members(t):
                        allowed |= set(S.enumeration(member) or [])
            if allowed:
                out[cls.__name__] = allowed
    return out


def _usage_from_file():
    # real-lxml mode cannot enumerate the class lookup; the stub-mode run leaves the usage table for replays
    import json

    path = os.path.join(VERIF_DIR, "evidence", "replays", "C20", "usage.json")
    raw = json.load(open(path))
    return {ENUMS[k]: [tuple(x) for x in v] for k, v in raw.items() if k in ENUMS}


@smt(timeout=300, encodes=ENC_ENUM,
     bound="every enum used as the simple type of an attribute declaration: each token is in the XSD enumeration of that attribute")
def tokens_in_schema():
    import json

    t0 = time.time()
    usage = introspect.attribute_usage()
    os.makedirs(os.path.join(VERIF_DIR, "evidence", "replays", "C20"), exist_ok=True)
    with open(os.path.join(VERIF_DIR, "evidence", "replays", "C20", "usage.json"), "w") as f:
        json.dump({c.__name__: [list(x) for x in v] for c, v in usage.items()
                   if isinstance(c, type) and issubclass(c, BaseXmlEnum)}, f)
    allowed = _schema_tokens()
    queries, samples, unpaired = 0, [], []
    for name in sorted(ENUMS):
        if name not in allowed:
            unpaired.append(name)
            continue
        ms = XMEMBERS[name]
        bad = [m.xml_value not in allowed[name] and not excluded("tokens_in_schema", enum=name, member=m.name) for m in ms]
        queries += 1
        r, k = _table_query(len(ms), bad)
        if r == "sat":
            return dict(status="violated", queries=queries, message="%s.%s token %r not in the schema enumeration" % (name, ms[k].name, ms[k].xml_value),
                        replay={"fn": "schema_replay", "module": __name__, "args": {"enum": repr(name), "member": repr(ms[k].name)}})
        if r != "unsat":
            return dict(status="unknown", queries=queries, message=r)
        samples.append({"enum": name, "tokens": len(ms), "schema_tokens": len(allowed[name])})
    return dict(status="holds", queries=queries, solver_s=round(time.time() - t0, 3), samples=samples[:4],
                detail={"enums_not_used_as_attribute_type": unpaired})


# ------------------------------------------------------------------ preset shape table
PRESETS = os.path.join(REPO, "spec", "ISO-IEC-29500-1", "schemas", "dml-geometries", "OfficeOpenXML-DrawingMLGeometries",
                       "presetShapeDefinitions.xml")
A = "{http://schemas.openxmlformats.org/drawingml/2006/main}"


def _preset_defs():
    out = {}
    for shape in ET.parse(PRESETS).getroot():
        av = shape.find(A + "avLst")
        gds = []
        if av is not None:
            for gd in av.findall(A + "gd"):
                fm = gd.get("fmla").split()
                gds.append((gd.get("name"), int(fm[1]) if fm[0] == "val" else fm))
        out[shape.tag] = tuple(gds)
    return out


def preset_replay(member):
    global LAST_DETAIL
    from pptx.enum.shapes import MSO_SHAPE
    from pptx.shapes.autoshape import AutoShapeType

    m = MSO_SHAPE[member]
    defs = _preset_defs()
    prst = MSO_SHAPE.to_xml(m)
    if prst not in defs:
        LAST_DETAIL = "%s: prst %r has no preset definition" % (member, prst)
        return False
    got = tuple(AutoShapeType.default_adjustment_values(m))
    if got != defs[prst]:
        LAST_DETAIL = "%s (%s): adjustments %r differ from the definition's %r" % (member, prst, got, defs[prst])
        return False
    return True


@smt(timeout=300, encodes=["pptx.shapes.autoshape:AutoShapeType.default_adjustment_values", "pptx.spec:autoshape_types"],
     bound="every MSO_AUTO_SHAPE_TYPE member with a prst token: preset definition exists; adjustment names, order and defaults equal")
def preset_table_matches_definitions():
    from pptx.enum.shapes import MSO_SHAPE
    from pptx.shapes.autoshape import AutoShapeType
    from pptx.spec import autoshape_types

    t0 = time.time()
    defs = _preset_defs()
    ms = [m for m in MSO_SHAPE if m.xml_value]
    bad = []
    for m in ms:
        if excluded("preset_table_matches_definitions", member=m.name):
            bad.append(False)
            continue
        bad.append(m.xml_value not in defs or m not in autoshape_types
                   or tuple(AutoShapeType.default_adjustment_values(m)) != defs[m.xml_value])
    r, k = _table_query(len(ms), bad)
    if r == "sat":
        m = ms[k]
        return dict(status="violated", queries=1, message="MSO_SHAPE.%s (%s): table %r vs definition %r" % (
            m.name, m.xml_value, autoshape_types.get(m, {}).get("avLst"), defs.get(m.xml_value, "<no definition>")),
            replay={"fn": "preset_replay", "module": __name__, "args": {"member": repr(m.name)}})
    if r != "unsat":
        return dict(status="unknown", queries=1, message=r)
    return dict(status="holds", queries=1, solver_s=round(time.time() - t0, 3),
                samples=[{"member": ms[0].name, "prst": ms[0].xml_value, "definition": defs.get(ms[0].xml_value)}])


# ------------------------------------------------------------------ add_shape / auto_shape_type
from pptx.oxml import parse_xml  # noqa: E402
from pptx.oxml.ns import nsdecls  # noqa: E402
from pptx.shapes.shapetree import SlideShapes  # noqa: E402

SHAPE_MEMBERS = XMEMBERS["MSO_AUTO_SHAPE_TYPE"]


def _sptree():
    return parse_xml(
        "<p:spTree %s><p:nvGrpSpPr><p:cNvPr id=\"1\" name=\"\"/><p:cNvGrpSpPr/><p:nvPr/></p:nvGrpSpPr>"
        "<p:grpSpPr/></p:spTree>" % nsdecls("p", "a")
    )


@cond(timeout=600, encodes=["pptx.shapes.shapetree:_BaseGroupShapes.add_shape", "pptx.shapes.autoshape:Shape.auto_shape_type",
                            "pptx.shapes.autoshape:AutoShapeType.__init__", "pptx.oxml.shapes.autoshape:CT_Shape.new_autoshape_sp",
                            "pptx.shapes.autoshape:AdjustmentCollection._initialized_adjustments"],
      bound="every auto-shape type with a prst token (symbolic member index; listed known findings excluded): add_shape then "
            "auto_shape_type returns the same member, prst attribute equals its token, adjustments report the table defaults -- for a "
            "second shape of the type added after a first one whose adjustments were all overridden")
def add_shape_reads_back(i: int) -> bool:
    """
    pre: 0 <= i < len(SHAPE_MEMBERS)
    pre: not excluded("add_shape_reads_back", member=SHAPE_MEMBERS[i].name)
    post: _
    """
    from pptx.shapes.autoshape import AutoShapeType

    m = SHAPE_MEMBERS[i]
    shapes = SlideShapes(_sptree(), None)
    # an earlier shape of the same type whose adjustments were overridden must not influence the new one
    first = shapes.add_shape(m, 0, 0, 914400, 914400)
    for k in range(len(first.adjustments)):
        first.adjustments[k] = 0.0625 + 0.03125 * k
    sh = shapes.add_shape(m, 0, 0, 914400, 914400)
    defaults = AutoShapeType.default_adjustment_values(m)
    adj = [sh.adjustments[k] for k in range(len(sh.adjustments))]
    return (sh.auto_shape_type is m and sh._element.xpath(".//a:prstGeom/@prst") == [m.xml_value] and len(adj) == len(defaults)
            and all(abs(a - d[1] / 100000.0) < 1e-9 for a, d in zip(adj, defaults)))
