"""C10 (mechanism lemmas) -- the ten-line insertion/removal mechanism of xmlchemy, executed by CrossHair on the
pxml stand-in, equals the model used by the Engine-S ordering queries in C10_order.py."""
from kit.env import *  # noqa

setup()

from pptx.oxml import parse_xml, register_element_cls  # noqa: E402
from pptx.oxml.ns import nsdecls, qn  # noqa: E402
from pptx.oxml.xmlchemy import (  # noqa: E402
    BaseOxmlElement, Choice, OxmlElement, ZeroOrMore, ZeroOrOne, ZeroOrOneChoice,
)

NMAX = 4 if THOROUGH else 3
TAGS = ["a:vb", "a:vc", "a:vd", "a:ve"]
CLARK = [qn(t) for t in TAGS]
ENC = ["pptx.oxml.xmlchemy:BaseOxmlElement.insert_element_before", "pptx.oxml.xmlchemy:BaseOxmlElement.first_child_found_in",
       "pptx.oxml.xmlchemy:BaseOxmlElement.remove_all", "pptx.oxml.xmlchemy:_BaseChildElement._add_inserter",
       "pptx.oxml.xmlchemy:_BaseChildElement._add_adder", "pptx.oxml.xmlchemy:ZeroOrOne._add_get_or_adder",
       "pptx.oxml.xmlchemy:ZeroOrOne._add_remover", "pptx.oxml.xmlchemy:Choice._add_get_or_change_to_method",
       "pptx.oxml.xmlchemy:ZeroOrOneChoice._add_choice_remover", "pptx.oxml.xmlchemy:ZeroOrOneChoice._choice_getter"]
BOUND = "child sequences of length <= 4 over a 4-tag alphabet (symbolic tag indices)"


class CT_VToy(BaseOxmlElement):
    vb = ZeroOrOne("a:vb", successors=("a:vc", "a:vd", "a:ve"))
    vc = ZeroOrMore("a:vc", successors=("a:vd", "a:ve"))
    eg_v = ZeroOrOneChoice((Choice("a:vd"), Choice("a:ve")), successors=())


register_element_cls("a:vtoy", CT_VToy)


def _build(n, k0, k1, k2, k3):
    p = parse_xml("<a:vtoy %s/>" % nsdecls("a"))
    kids = []
    for k in [k0, k1, k2, k3][:n]:
        e = OxmlElement(TAGS[k])
        p.append(e)
        kids.append(e)
    return p, kids


def _model_insert(kids, new, succ_clark):
    for i, e in enumerate(kids):
        if e.tag in succ_clark:
            return kids[:i] + [new] + kids[i:]
    return kids + [new]


def _same(p, expect):
    got = list(p)
    return len(got) == len(expect) and all(a is b for a, b in zip(got, expect))


_PRE = "0 <= n <= 4 and 0 <= k0 < 4 and 0 <= k1 < 4 and 0 <= k2 < 4 and 0 <= k3 < 4"


@cond(timeout=600 if not THOROUGH else 3000, encodes=ENC,
      bound="child sequences of length <= 3 (quick) / 4 (thorough) over a 4-tag alphabet; successor tuple: 2 slots, each absent or one of the 4 tags")
def insert_element_before_is_document_order(n: int, k0: int, k1: int, k2: int, k3: int, s0: int, s1: int) -> bool:
    """
    pre: 0 <= n <= NMAX and 0 <= k0 < 4 and 0 <= k1 < 4 and 0 <= k2 < 4 and 0 <= k3 < 4
    pre: -1 <= s0 < 4 and -1 <= s1 < 4
    post: _
    """
    p, kids = _build(n, k0, k1, k2, k3)
    succ = [TAGS[s] for s in (s0, s1) if s >= 0]
    e = OxmlElement(TAGS[0])
    r = p.insert_element_before(e, *succ)
    return r is e and _same(p, _model_insert(kids, e, [qn(t) for t in succ]))


@cond(expect="refute", timeout=120, twin_of="insert_element_before_is_document_order")
def insert_element_before_twin(n: int, k0: int, k1: int, k2: int, k3: int, s0: int, s1: int) -> bool:
    """
    pre: 0 <= n <= 4 and 0 <= k0 < 4 and 0 <= k1 < 4 and 0 <= k2 < 4 and 0 <= k3 < 4
    pre: -1 <= s0 < 4 and -1 <= s1 < 4
    post: _
    """
    p, kids = _build(n, k0, k1, k2, k3)
    succ = [TAGS[s] for s in (s0, s1) if s >= 0]
    e = OxmlElement(TAGS[0])
    p.insert_element_before(e, *succ)
    # reach: two different successor kinds present, the one listed second occurring first in the document
    return not (n == 3 and list(p).index(e) == 1 and s0 == 2 and s1 == 3 and k1 == 3 and k2 == 2)


@cond(timeout=600 if not THOROUGH else 3000, encodes=ENC,
      bound="child sequences of length <= 3 (quick) / 4 (thorough) over a 4-tag alphabet; tag set to remove: any subset of the 4 tags")
def remove_all_removes_exactly_those(n: int, k0: int, k1: int, k2: int, k3: int, r0: bool, r1: bool, r2: bool, r3: bool) -> bool:
    """
    pre: 0 <= n <= NMAX and 0 <= k0 < 4 and 0 <= k1 < 4 and 0 <= k2 < 4 and 0 <= k3 < 4
    post: _
    """
    p, kids = _build(n, k0, k1, k2, k3)
    doomed = [t for t, r in zip(TAGS, (r0, r1, r2, r3)) if r]
    p.remove_all(*doomed)
    dc = [qn(t) for t in doomed]
    return _same(p, [e for e in kids if e.tag not in dc])


@cond(timeout=300, encodes=ENC, bound=BOUND)
def zero_or_one_get_or_add_and_remove(n: int, k0: int, k1: int, k2: int, k3: int) -> bool:
    """
    pre: 0 <= n <= 4 and 0 <= k0 < 4 and 0 <= k1 < 4 and 0 <= k2 < 4 and 0 <= k3 < 4
    post: _
    """
    p, kids = _build(n, k0, k1, k2, k3)
    existing = [e for e in kids if e.tag == CLARK[0]]
    got = p.get_or_add_vb()
    if existing:
        ok = got is existing[0] and _same(p, kids)
    else:
        ok = got.tag == CLARK[0] and _same(p, _model_insert(kids, got, CLARK[1:]))
    now = list(p)
    p._remove_vb()
    return ok and _same(p, [e for e in now if e.tag != CLARK[0]]) and p.vb is None


@cond(timeout=300, encodes=ENC, bound=BOUND)
def zero_or_more_add(n: int, k0: int, k1: int, k2: int, k3: int) -> bool:
    """
    pre: 0 <= n <= 4 and 0 <= k0 < 4 and 0 <= k1 < 4 and 0 <= k2 < 4 and 0 <= k3 < 4
    post: _
    """
    p, kids = _build(n, k0, k1, k2, k3)
    got = p._add_vc()
    return got.tag == CLARK[1] and _same(p, _model_insert(kids, got, CLARK[2:])) and p.vc_lst == [e for e in p if e.tag == CLARK[1]]


@cond(timeout=300, encodes=ENC, bound=BOUND + "; pre-state holds at most one member of the choice group")
def choice_get_or_change_to(n: int, k0: int, k1: int, k2: int, k3: int, to_ve: bool) -> bool:
    """
    pre: 0 <= n <= 4 and 0 <= k0 < 4 and 0 <= k1 < 4 and 0 <= k2 < 4 and 0 <= k3 < 4
    pre: sum(1 for k in [k0, k1, k2, k3][:n] if k >= 2) <= 1
    post: _
    """
    p, kids = _build(n, k0, k1, k2, k3)
    target = CLARK[3] if to_ve else CLARK[2]
    had = [e for e in kids if e.tag == target]
    got = p.get_or_change_to_ve() if to_ve else p.get_or_change_to_vd()
    members = [e for e in p if e.tag in CLARK[2:]]
    others_before = [e for e in kids if e.tag not in CLARK[2:]]
    others_after = [e for e in p if e.tag not in CLARK[2:]]
    ok = len(members) == 1 and members[0] is got and got.tag == target and p.eg_v is got
    if had:
        ok = ok and got is had[0]
    return ok and len(others_before) == len(others_after) and all(a is b for a, b in zip(others_before, others_after)) and list(p)[-1] is got or (ok and had != [])


@cond(expect="refute", timeout=120, twin_of="choice_get_or_change_to")
def choice_twin(n: int, k0: int, k1: int, k2: int, k3: int) -> bool:
    """
    pre: 0 <= n <= 4 and 0 <= k0 < 4 and 0 <= k1 < 4 and 0 <= k2 < 4 and 0 <= k3 < 4
    pre: sum(1 for k in [k0, k1, k2, k3][:n] if k >= 2) <= 1
    post: _
    """
    p, kids = _build(n, k0, k1, k2, k3)
    had_vd = any(e.tag == CLARK[2] for e in kids)
    p.get_or_change_to_ve()
    return not (had_vd and n == 4)


# ------------------------------------------------------------------ nested content is not a sibling
def _build_nested(n, ks, gs):
    p = parse_xml("<a:vtoy %s/>" % nsdecls("a"))
    kids, grand = [], []
    for k, g in list(zip(ks, gs))[:n]:
        e = OxmlElement(TAGS[k])
        p.append(e)
        kids.append(e)
        if g >= 0:
            ge = OxmlElement(TAGS[g])
            e.append(ge)
            grand.append((e, ge))
    return p, kids, grand


NEST_N = 3 if THOROUGH else 2


@cond(timeout=3000 if THOROUGH else 900, encodes=ENC,
      bound="child sequences of length <= 2 (quick) / 3 (thorough) over a 4-tag alphabet, one of the children optionally holding one nested "
            "element of any of the 4 tags (PowerPoint-authored subtrees such as p:nvPr/p:extLst or c:dLbl/c:txPr); one successor tag or "
            "none; operation: insert_element_before / remove_all of the successor tag / ZeroOrOne get_or_add (choice variable): only "
            "children count, nested elements stay where they are")
def nested_elements_are_not_siblings(n: int, k0: int, k1: int, k2: int, gpos: int, g: int, s0: int, op: int) -> bool:
    """
    pre: 0 <= n <= NEST_N and 0 <= k0 < 4 and 0 <= k1 < 4 and 0 <= k2 < 4 and (n > 2 or k2 == 0) and (n > 1 or k1 == 0) and (n > 0 or k0 == 0)
    pre: 0 <= gpos < 3 and -1 <= g < 4 and (g >= 0 or gpos == 0) and -1 <= s0 < 4 and 0 <= op < 3
    post: _
    """
    gs = [g if gpos == j else -1 for j in range(3)]
    p, kids, grand = _build_nested(n, [k0, k1, k2], gs)
    succ = [TAGS[s] for s in (s0,) if s >= 0]
    sc = [qn(t) for t in succ]
    if op == 0:
        e = OxmlElement(TAGS[0])
        p.insert_element_before(e, *succ)
        ok = _same(p, _model_insert(kids, e, sc))
    elif op == 1:
        p.remove_all(*succ)
        ok = _same(p, [e for e in kids if e.tag not in sc])
    else:
        existing = [e for e in kids if e.tag == CLARK[0]]
        got = p.get_or_add_vb()
        if existing:
            ok = got is existing[0] and _same(p, kids)
        else:
            ok = got.tag == CLARK[0] and _same(p, _model_insert(kids, got, CLARK[1:]))
    return ok and all(len(e) == 1 and e[0] is ge for e, ge in grand) and all(len(e) == 0 for e in kids if all(e is not x for x, _ in grand))


@cond(expect="refute", timeout=120, twin_of="nested_elements_are_not_siblings")
def nested_elements_twin(n: int, k0: int, k1: int, g0: int, s0: int) -> bool:
    """
    pre: 0 <= n <= 3 and 0 <= k0 < 4 and 0 <= k1 < 4 and -1 <= g0 < 4 and -1 <= s0 < 4
    post: _
    """
    p, kids, grand = _build_nested(n, [k0, k1, 0], [g0, -1, -1])
    e = OxmlElement(TAGS[0])
    p.insert_element_before(e, *[TAGS[s] for s in (s0,) if s >= 0])
    # reach: the only element carrying the successor tag is nested inside the first child
    return not (n == 2 and g0 == 2 and s0 == 2 and k0 != 2 and k1 != 2 and list(p).index(e) == 2)
