#!/verif/.venv/bin/python
"""Replay of a counterexample for property C11, condition optional_attr_rejects_before_writing.
Runs the harness body on the UNPATCHED library with real lxml (VERIF_REAL=1).
exit 1 = the violation reproduces; exit 0 = it does not.
"""
import os, sys
os.environ["VERIF_REAL"] = "1"
os.environ.setdefault("VERIF_TIER", 'quick')
sys.path[:0] = ['/verif', os.path.join(os.environ.get("VERIF_REPO", "/repo"), "src")]
from kit.replay import replay
sys.exit(replay('harness.C11_simpletypes', 'optional_attr_rejects_before_writing', {'had': 'True', 'old': '1000', 'v': '400001', 'none': 'False'}))
