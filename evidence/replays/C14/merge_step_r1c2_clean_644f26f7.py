#!/verif/.venv/bin/python
"""Replay of a counterexample for property C14, condition merge_step_r1c2_clean.
Runs the harness body on the UNPATCHED library with real lxml (VERIF_REAL=1).
exit 1 = the violation reproduces; exit 0 = it does not.
"""
import os, sys
os.environ["VERIF_REAL"] = "1"
os.environ.setdefault("VERIF_TIER", 'quick')
sys.path[:0] = ['/verif', os.path.join(os.environ.get("VERIF_REPO", "/repo"), "src")]
from kit.replay import replay
sys.exit(replay('harness.C14_tables', 'merge_step_r1c2_clean', {'r2': '0', 'c2': '2', 'pt': '0', 'pl': '0', 'ph': '1', 'pw': '1'}))
