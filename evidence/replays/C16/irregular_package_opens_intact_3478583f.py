#!/verif/.venv/bin/python
"""Replay of a counterexample for property C16, condition irregular_package_opens_intact.
Runs the harness body on the UNPATCHED library with real lxml (VERIF_REAL=1).
exit 1 = the violation reproduces; exit 0 = it does not.
"""
import os, sys
os.environ["VERIF_REAL"] = "1"
os.environ.setdefault("VERIF_TIER", 'quick')
sys.path[:0] = ['/verif', os.path.join(os.environ.get("VERIF_REPO", "/repo"), "src")]
from kit.replay import replay
sys.exit(replay('harness.C16_irregular', 'irregular_package_opens_intact', {'dangle_s1': 'False', 'void_rel': 'True', 'void_known_ext': 'False', 'flip_override': 'False', 'flip_default': 'False', 'orphan': 'False', 'unknown_ct': 'False', 's1_has_rels': 'True'}))
