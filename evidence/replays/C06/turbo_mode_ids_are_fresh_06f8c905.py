#!/verif/.venv/bin/python
"""Replay of a counterexample for property C06, condition turbo_mode_ids_are_fresh.
Runs the harness body on the UNPATCHED library with real lxml (VERIF_REAL=1).
exit 1 = the violation reproduces; exit 0 = it does not.
"""
import os, sys
os.environ["VERIF_REAL"] = "1"
os.environ.setdefault("VERIF_TIER", 'quick')
sys.path[:0] = ['/verif', os.path.join(os.environ.get("VERIF_REPO", "/repo"), "src")]
from kit.replay import replay
sys.exit(replay('harness.C06_ids', 'turbo_mode_ids_are_fresh', {'a': '2', 'b': '0', 'c': '0', 'mid': '2'}))
