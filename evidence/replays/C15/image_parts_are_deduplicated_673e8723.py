#!/verif/.venv/bin/python
"""Replay of a counterexample for property C15, condition image_parts_are_deduplicated.
Runs the harness body on the UNPATCHED library with real lxml (VERIF_REAL=1).
exit 1 = the violation reproduces; exit 0 = it does not.
"""
import os, sys
os.environ["VERIF_REAL"] = "1"
os.environ.setdefault("VERIF_TIER", 'quick')
sys.path[:0] = ['/verif', os.path.join(os.environ.get("VERIF_REPO", "/repo"), "src")]
from kit.replay import replay
sys.exit(replay('harness.C15_images', 'image_parts_are_deduplicated', {'k': '3', 's0': '2', 's1': '0', 's2': '0', 'new': '0', 'e': '10', 'shared_source': 'False'}))
