#!/verif/.venv/bin/python
"""Replay of a counterexample for property C10, condition order_replay.
Runs the harness body on the UNPATCHED library with real lxml (VERIF_REAL=1).
exit 1 = the violation reproduces; exit 0 = it does not.
"""
import os, sys
os.environ["VERIF_REAL"] = "1"
os.environ.setdefault("VERIF_TIER", 'quick')
sys.path[:0] = ['/verif', os.path.join(os.environ.get("VERIF_REPO", "/repo"), "src")]
from kit.replay import replay
sys.exit(replay('harness.C10_order', 'order_replay', {'parent': "'{http://schemas.openxmlformats.org/presentationml/2006/main}cNvSpPr'", 'type_key': "['http://schemas.openxmlformats.org/drawingml/2006/main', 'CT_NonVisualDrawingShapeProps']", 'kind': "'insert_single'", 'child': "'{http://schemas.openxmlformats.org/drawingml/2006/main}spLocks'", 'method': "'_insert_spLocks'", 'siblings': "['{http://schemas.openxmlformats.org/drawingml/2006/main}extLst']"}))
