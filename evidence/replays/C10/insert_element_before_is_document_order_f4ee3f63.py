#!/verif/.venv/bin/python
"""Replay of a counterexample for property C10, condition insert_element_before_is_document_order.
Runs the harness body on the UNPATCHED library with real lxml (VERIF_REAL=1).
exit 1 = the violation reproduces; exit 0 = it does not.
"""
import os, sys
os.environ["VERIF_REAL"] = "1"
os.environ.setdefault("VERIF_TIER", 'quick')
sys.path[:0] = ['/verif', os.path.join(os.environ.get("VERIF_REPO", "/repo"), "src")]
from kit.replay import replay
sys.exit(replay('harness.C10_mech', 'insert_element_before_is_document_order', {'n': '3', 'k0': '3', 'k1': '3', 'k2': '0', 'k3': '0', 's0': '0', 's1': '3'}))
