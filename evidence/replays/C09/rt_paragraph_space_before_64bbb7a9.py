#!/verif/.venv/bin/python
"""Replay of a counterexample for property C09, condition rt_paragraph_space_before.
Runs the harness body on the UNPATCHED library with real lxml (VERIF_REAL=1).
exit 1 = the violation reproduces; exit 0 = it does not.
"""
import os, sys
os.environ["VERIF_REAL"] = "1"
os.environ.setdefault("VERIF_TIER", 'quick')
sys.path[:0] = ['/verif', os.path.join(os.environ.get("VERIF_REPO", "/repo"), "src")]
from kit.replay import replay
sys.exit(replay('harness.C09_properties', 'rt_paragraph_space_before', {'v': '20116801', 'preset': 'False', 'w': '0'}))
