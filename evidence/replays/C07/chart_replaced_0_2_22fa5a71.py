#!/verif/.venv/bin/python
"""Replay of a counterexample for property C07, condition chart_replaced_0_2.
Runs the harness body on the UNPATCHED library with real lxml (VERIF_REAL=1).
exit 1 = the violation reproduces; exit 0 = it does not.
"""
import os, sys
os.environ["VERIF_REAL"] = "1"
os.environ.setdefault("VERIF_TIER", 'quick')
sys.path[:0] = ['/verif', os.path.join(os.environ.get("VERIF_REPO", "/repo"), "src")]
from kit.replay import replay
sys.exit(replay('harness.C07_charts', 'chart_replaced_0_2', {'ns': '1', 'ns2': '1', 'npts2': '1', 'shifted': 'False'}))
