#!/verif/.venv/bin/python
"""Replay of a counterexample for property C19, condition roundtrip_2_1.
Runs the harness body on the UNPATCHED library with real lxml (VERIF_REAL=1).
exit 1 = the violation reproduces; exit 0 = it does not.
"""
import os, sys
os.environ["VERIF_REAL"] = "1"
os.environ.setdefault("VERIF_TIER", 'quick')
sys.path[:0] = ['/verif', os.path.join(os.environ.get("VERIF_REPO", "/repo"), "src")]
from kit.replay import replay
sys.exit(replay('harness.C19_packuri', 'roundtrip_2_1', {'p0': "'\\x00'", 'p1': "'\\x00'", 'q0': "'\\x00\\x00'"}))
