#!/verif/.venv/bin/python
"""Replay of a counterexample for property C19, condition rfc3986_resolution.
Runs the harness body on the UNPATCHED library with real lxml (VERIF_REAL=1).
exit 1 = the violation reproduces; exit 0 = it does not.
"""
import os, sys
os.environ["VERIF_REAL"] = "1"
os.environ.setdefault("VERIF_TIER", 'quick')
sys.path[:0] = ['/verif', os.path.join(os.environ.get("VERIF_REPO", "/repo"), "src")]
from kit.replay import replay
sys.exit(replay('harness.C19_packuri', 'rfc3986_resolution', {'nb': '0', 'absolute': 'True', 'nr': '1', 'r0': '4', 'r1': '3', 'r2': '3'}))
