#!/verif/.venv/bin/python
"""Replay of a counterexample for property C17, condition freeform_one_contour.
Runs the harness body on the UNPATCHED library with real lxml (VERIF_REAL=1).
exit 1 = the violation reproduces; exit 0 = it does not.
"""
import os, sys
os.environ["VERIF_REAL"] = "1"
os.environ.setdefault("VERIF_TIER", 'quick')
sys.path[:0] = ['/verif', os.path.join(os.environ.get("VERIF_REPO", "/repo"), "src")]
from kit.replay import replay
sys.exit(replay('harness.C17_geometry', 'freeform_one_contour', {'sx': '0', 'sy': '0', 'x1': '0', 'y1': '0', 'x2': '0', 'y2': '0', 'x3': '0', 'y3': '0', 'n': '1', 'ox': '0', 'oy': '0', 'kx': '0', 'ky': '0', 'close': 'True'}))
