#!/verif/.venv/bin/python
"""Replay of a counterexample for property C17, condition group_extents_after_freeform.
Runs the harness body on the UNPATCHED library with real lxml (VERIF_REAL=1).
exit 1 = the violation reproduces; exit 0 = it does not.
"""
import os, sys
os.environ["VERIF_REAL"] = "1"
os.environ.setdefault("VERIF_TIER", 'quick')
sys.path[:0] = ['/verif', os.path.join(os.environ.get("VERIF_REPO", "/repo"), "src")]
from kit.replay import replay
sys.exit(replay('harness.C17_geometry', 'group_extents_after_freeform', {'x1': '0', 'y1': '0', 'w1': '0', 'h1': '0', 'vx': '0', 'vy': '0', 'ox': '0', 'oy': '1'}))
